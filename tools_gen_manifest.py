#!/usr/bin/env python3
"""Regenerates MANIFEST.json from one place so that it is always valid."""
import json, os, subprocess
HERE = os.path.dirname(os.path.abspath(__file__))
BASELINE = json.load(open("/root/.vp/BASELINE.json")) if os.path.exists("/root/.vp/BASELINE.json") else {}

NA = {
 "C01": "Pure @jit functions of their array arguments (exp/log/inverse/adjoint identities): no clock, I/O, schedule, internal PRNG or crash point for a simulator to own; input-space property, not a simulation target.",
 "C02": "Port-vs-reference equivalence of pure functions: a differential/translation-validation question over inputs and programs; nothing nondeterministic in either library.",
 "C03": "tm is a plain in-memory object mutated by a single caller; a 'history' is an explicit call list with no hidden draw, fault or interleaving - stateful testing, not simulation.",
 "C04": "Group laws and constructor-form agreement of tm: pure functions of poses; no schedule, time, I/O or fault.",
 "C05": "FK = base*PoE through move/tool-change histories is deterministic single-caller bookkeeping; the only library-internal draws (IK restarts) are decided under C07.",
 "C06": "Jacobians as derivatives of FK and J-transpose statics: pure functions of (arm, theta, rates, wrench).",
 "C08": "Mass matrix, Newton-Euler, forward/inverse dynamics identities: pure functions of (chain, q, qdot, qddot, tau, g, F).",
 "C09": "Stewart-platform IK geometry and FK inverting IK: deterministic Newton/fsolve on explicit poses; SPIKinSpace is parallel=True but loops with range (no data-parallel schedule).",
 "C10": "Stewart-platform state coherence over op histories: single caller, deterministic; np.random in randomPos only chooses an ordinary FK argument. Injecting solver failures the real solver cannot produce would be outside the statement.",
 "C11": "SP inverse Jacobian = d(legs)/d(twist) and static equilibrium: pure functions of pose, twist, wrench.",
 "C12": "Wrench/screw frame changes and arithmetic: pure functions (shared default frame object is deterministic single-caller state).",
 "C13": "URDF -> arm is a function of the file's contents; the statement says nothing about I/O outcomes (missing/short/failing reads), so there is no fault to inject.",
 "C14": "Non-mutation/non-aliasing of operands: byte fingerprints around deterministic calls; one caller, no schedule.",
 "C15": "Segment-vs-box predicate: a pure function, best decided by the exhaustive lattice enumeration the property itself names (model checking / enumeration, a different family).",
 "C17": "Bounds-checked vs unchecked and compiled vs py_func agreement: two deterministic executions of pure kernels under an environment switch.",
 "C18": "Geometric helper identities in fsr: pure functions (sphere samplers are deterministic constructions, no PRNG).",
 "C20": "disp totality/faithfulness: a pure function of the object plus one print; the statement says nothing about a failing or slow output stream.",
}

CHECKS = {
 "C19": dict(
   level=("fault_enumeration",
          "Deterministic simulation of the real Comms hub and real UDPObjects on a simulated socket module with a virtual clock: seeded "
          "search over operation histories (<=60 steps, 1-2 hubs x 1-4 endpoints, doubles + UDP, sinks/sources, peers) and datagram fates "
          "(loss, duplication, reordering, delay beyond the time-out, inbox overflow, truncation), each sampled history additionally "
          "re-executed with the no-data fault forced at every receive position (thorough: every pair of positions of short histories). "
          "After every hub call the multiset of observed deliveries (double sendData calls, datagrams on the wire with their full address, "
          "sink invocations - including sinks that re-enter the hub -, source calls) must equal the prediction of a small reference model "
          "of the rule tables; registration results must match; a no-data receive must deliver nothing, raise nothing and return (a receive "
          "that would block forever is a violation); every datagram an endpoint reads from its socket must be handed to the hub unchanged "
          "before the endpoint reports 'no data', and none may be thrown away with a socket the endpoint closes on its own; spin must poll "
          "every open endpoint that has a rule and a message waiting; after openAll/closeAll/openCom/closeCom every endpoint must be in the "
          "state the caller asked for and an open UDP endpoint must listen on its receive port. "
          "Evidence, not proof: histories are sampled; only fault *positions* are enumerated per sampled history.", "DESIGN.md section 2"),
   note="Trusted: the SimSocket stub (validated against real loopback sockets by `./check selftest fidelity`; socket API it does not model "
        "is a HARNESS-ERROR, never a violation), the reference model (50 lines), single-threaded use, call-backs that do not mutate the rule "
        "tables; every `time` name the interfaces modules hold is the simulator's clock (seeded change c19u). Not covered: serial/ROS/OPC bridges, send-side errors, time-out 0, exhaustive depth-5 enumeration (a model-checking clause; "
        "this family samples). Sensitivity: own mutants, 19 independently seeded changes and 27 reviewer-written variants "
        "(`./check selftest mutants|seeded|variants C19`).",
   technique="deterministic simulation: virtual-clock UDP network + seeded history/fault search + per-step refinement against a reference model"),
 "C16": dict(
   level=("exploration",
          "Deterministic simulation restricted to the one nondeterminism the planner has: the simulator owns the `random` object of "
          "pathplanner (one integer = one exact execution; scripted draw kinds force ties, duplicates, near-min/near-max and into-obstacle "
          "samples), records every generator/distance/collision call at the call-back seams while the tree grows, and afterwards checks "
          "the recorded growth history against an independent brute-force nearest-neighbour replay (root, acyclic reachability, cost "
          "bookkeeping incl. finiteness, free edges, min/max connection distance at insertion, cheapest free parent among the examined, "
          "path, tree size), across one to three calls on the same planner; in the built-in pipeline the planner's metric itself is "
          "compared at every call with an independent evaluation of the documented distance mode.",
          "DESIGN.md section 3"),
   note="Trusted: rtree/libspatialindex as a real component (its tie order is accepted, not predicted), the brute-force reference, float "
        "tolerance 1e-9 on cost sums. No network, disk or crash exists in this component and none is claimed; the unchanged planner reads no clock, but the `time` names it can reach are the simulator's and the call-backs cost simulated time (slow collision checker), so a change that makes the tree depend on elapsed time is decided (mutant c16-planning-time-budget).",
   technique="deterministic simulation: simulator-owned PRNG (scripted draw schedule) + call-back seam monitors + history replay against a brute-force reference"),
 "C07": dict(
   level=("exploration",
          "Deterministic simulation of the IK retry policy: the simulator owns the `random` object of arm_model, so the restart draws "
          "(which decide which write-back branch runs and what state the arm is left in) are one replayable schedule; scripted draws "
          "force success-on-restart-k and all-restarts-fail at every iteration budget. Short operation histories (IK/constrainedIK/IKFree "
          "interleaved with moves, tool changes, limit and tolerance changes) over bundled URDF arms and random chains are checked after "
          "every call: success => FK(theta) within the configured tolerances (independent error computation), in limits, state = solution; "
          "failure => reported tool pose = FK(stored joints) (also after move(stationary)); near-solution start => success; the vector "
          "handed to the caller is not the arm's own state array; a call that raises leaves a coherent arm coherent. Six genuine numerical "
          "findings of the unchanged library are recorded as known findings with narrow predicates and a committed failing trace each.", "DESIGN.md sections 4, 10, 13"),
   note="Trusted: the arm's own FK (C05's business), NumPy/SciPy for the independent error twist, Numba-compiled kernels as real components. "
        "Only the restart policy/state write-back is schedule-dependent; goals/arms/tolerances are sampled inputs.",
   technique="deterministic simulation: simulator-owned PRNG (scripted restart schedule) + seeded op-history search + per-call oracle"),
}


def main():
    built = [p for p in ("C07", "C16", "C19") if os.path.exists(os.path.join(HERE, "sims", {"C07": "c07_ik.py", "C16": "c16_rrt.py", "C19": "c19_router.py"}[p]))]
    checks = []
    for p in built:
        c = CHECKS[p]
        checks.append({
            "property_id": p,
            "quick_cmd": "./check %s --tier quick" % p,
            "thorough_cmd": "./check %s --tier thorough" % p,
            "evidence_file": "/verif/evidence/%s.json" % p,
            "replay_cmd_template": "./check replay {path}",
            "engine": "dsim",
            "level_claimed": {"category": c["level"][0], "text": c["level"][1], "design_ref": c["level"][2]},
            "level_note": c["note"],
            "technique": c["technique"],
        })
    na = [{"property_id": k, "reason": v} for k, v in sorted(NA.items())]
    for p in ("C07", "C16", "C19"):
        if p not in built:
            na.append({"property_id": p, "reason": "simulation target (DESIGN.md); check not built yet in this commit, so not claimed"})
    na.sort(key=lambda x: x["property_id"])
    man = {
        "version": 1,
        "setup_cmd": "mkdir -p /verif/out /verif/evidence && /venv/bin/python -m compileall -q /verif/dsim /verif/sims >/dev/null && /venv/bin/python -c \"import numpy, scipy, numba, rtree\"",
        "hooks": {
            "guard": "BASIC_ROBOTICS_VERIF",
            "enable": "no source hooks exist: all seams are module-level names resolved at call time (udp_bridge.socket, pathplanner.random, arm_model.random) and are replaced by the simulator in-process; the guard name is reserved and unused",
            "baseline_off_cmd": "cd /repo && /venv/bin/python -m pytest -q -p no:cacheprovider --timeout=900 --continue-on-collection-errors",
            "source_commits": [],
            "add_only": True,
        },
        "engines": [{"name": "dsim", "path": "/verif/dsim", "serves_properties": built,
                     "kind_free_text": "hand-written deterministic simulator: seeded trace generation, virtual clock + datagram network + socket-module stand-in, simulator-owned PRNG, per-step reference-model oracles, ddmin minimiser, replay files, fork pool with watchdog"}],
        "checks": checks,
        "not_applicable": na,
        "notes": "Technique family: deterministic simulation with fault injection. 17 properties are pure functions of their inputs or single-caller histories and are answered not-applicable (DESIGN.md section 5). Exit codes: 0 held, 1 VIOLATION, 2 HARNESS-ERROR.",
    }
    with open(os.path.join(HERE, "MANIFEST.json"), "w") as f:
        json.dump(man, f, indent=1)
        f.write("\n")
    try:
        import jsonschema
        jsonschema.validate(man, json.load(open("/root/.vp/MANIFEST.schema.json")))
        print("MANIFEST.json valid; claimed:", built)
    except ImportError:
        print("MANIFEST.json written (jsonschema unavailable)")

main()
