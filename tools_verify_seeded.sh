#!/bin/bash
# usage: tools_verify_seeded.sh <id> "<pytest targets>"   -- re-confirms a sub-agent's seeded change in its worktree /tmp/wt-<id>
# and copies patch.diff, demo.py, NOTES.md into /verif/seeded/<id>/ (meta.json is written by hand afterwards).
set -u
w=$1; tests=$2; d=/tmp/wt-$w
export NUMBA_CACHE_DIR=$d/.numba_cache PYTHONPATH=$d
cd $d || exit 2
git status --short | grep -v '^??'
git diff | diff -q - patch.diff >/dev/null && echo "worktree diff == patch.diff" || { echo "worktree diff differs from patch.diff"; }
rm -rf $d/.numba_cache
echo "--- tests WITH change"; timeout 1200 /venv/bin/python -m pytest -q -p no:cacheprovider $tests 2>&1 | tail -2
timeout 600 /venv/bin/python demo.py > /tmp/demo-$w-with.log 2>&1; echo "demo WITH change exit=$?"; tail -2 /tmp/demo-$w-with.log | cut -c1-300
git apply -R patch.diff || exit 2
rm -rf $d/.numba_cache
timeout 600 /venv/bin/python demo.py > /tmp/demo-$w-without.log 2>&1; echo "demo WITHOUT change exit=$?"
git apply patch.diff
mkdir -p /verif/seeded/$w && cp patch.diff demo.py NOTES.md /verif/seeded/$w/
