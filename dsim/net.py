"""Virtual clock, simulated datagram network and a stand-in for the `socket` module.

`SimSocket` reproduces the Linux UDP behaviour measured with real 127.0.0.1
sockets in this sandbox (DESIGN.md 2.1 / probe P3): a kinder fake would hide a
real defect, a harsher one would invent one.

  bind on a bound address            -> OSError(EADDRINUSE)
  bind twice on one socket           -> OSError(EINVAL)
  datagram to an unbound address     -> silently lost (sendto returns len)
  recvfrom(n)                        -> truncates to n bytes
  time-out                           -> builtin TimeoutError
  shutdown() on unconnected dgram    -> raises OSError(ENOTCONN) AND leaves the socket
                                        unable to send (BrokenPipeError), able to receive
  recvfrom/sendto/shutdown after close -> OSError(EBADF); close twice is fine
  sendto from an unbound socket      -> auto-binds an ephemeral port

Nothing sleeps: a blocking receive jumps the clock.
"""
import errno
import heapq
import weakref

from . import HarnessError


class WouldHangForever(BaseException):
    """A blocking receive on a socket without a time-out and with nothing in flight: the real call never returns."""


AF_INET = 2
SOCK_DGRAM = 2
SHUT_RD, SHUT_WR, SHUT_RDWR = 0, 1, 2
MSG_PEEK, MSG_DONTWAIT = 2, 0x40


class SimClock:
    __slots__ = ("now",)

    def __init__(self):
        self.now = 0.0

    def advance(self, dt):
        if dt < 0:
            raise HarnessError("negative time step")
        self.now += dt

    def jump_to(self, t):
        if t > self.now:
            self.now = t


class SimNet:
    """All sockets of one run.  Fates of datagrams come from the trace."""

    def __init__(self, clock, log, inbox_cap=64):
        self.clock = clock
        self.log = log
        # (ip, port) -> SimSocket.  Weak: a socket object the code under test simply drops is closed by the
        # interpreter, and its port is free again (CPython closes the descriptor when the last reference goes).
        self.bound = weakref.WeakValueDictionary()
        self.inbox_cap = inbox_cap
        self._seq = 0
        self._eph = 40000
        self.fates = []            # fates for sends of the current step (consumed in order)
        self.default_latency = 0.0
        self.stats = {"sent": 0, "delivered": 0, "dropped": 0, "duplicated": 0,
                      "lost_unbound": 0, "overflow": 0, "held": 0, "reordered": 0,
                      "truncated": 0, "timeouts": 0, "forced_timeouts": 0, "would_block": 0}
        # receive-fault control: set of global receive positions to force "no data" at
        self.force_nodata = frozenset()
        self.recv_pos = 0          # global receive position counter (shared with doubles)
        self.hook_recv = None      # callable(sock, data or None) -- observation seam
        self.hook_send = None      # callable(sock, data, addr)
        self.hook_close = None     # callable(sock, [datagrams that had arrived and die with the socket])

    def set_fates(self, fates):
        self.fates = list(fates or [])

    def _next_fate(self):
        if self.fates:
            return self.fates.pop(0)
        return {"k": "deliver", "lat": self.default_latency}

    def next_recv_pos(self):
        p = self.recv_pos
        self.recv_pos += 1
        return p

    def ephemeral(self):
        self._eph += 1
        return self._eph

    def transmit(self, src, data, addr):
        self.stats["sent"] += 1
        fate = self._next_fate()
        kind = fate.get("k", "deliver")
        if self.hook_send is not None:
            self.hook_send(src, data, addr)
        if kind == "drop":
            self.stats["dropped"] += 1
            self.log.add("net.drop", src.label, addr[1], data)
            return
        lats = [fate.get("lat", 0.0)]
        if kind == "dup":
            lats = list(fate.get("lats", [0.0, 0.0]))
            self.stats["duplicated"] += 1
        for lat in lats:
            self._enqueue(src, data, addr, self.clock.now + lat)

    def _enqueue(self, src, data, addr, arrival):
        dst = self.bound.get(addr)
        if dst is None:
            self.stats["lost_unbound"] += 1
            self.log.add("net.lost_unbound", src.label, addr[1], data)
            return
        if len(dst.inbox) >= self.inbox_cap:
            self.stats["overflow"] += 1
            self.log.add("net.overflow", src.label, addr[1], data)
            return
        self._seq += 1
        if dst.inbox and arrival < max(x[0] for x in dst.inbox):
            self.stats["reordered"] += 1
        heapq.heappush(dst.inbox, (arrival, self._seq, data, src.addr))
        self.log.add("net.queue", src.label, addr[1], data, arrival)


class SimSocket:
    def __init__(self, net, label=None):
        self.net = net
        self.label = label or "sock"
        self.addr = None
        self.timeout = None
        self.closed = False
        self.half_shut = False
        self.peer = None
        self.inbox = []            # heap of (arrival, seq, data, src_addr)

    # -- API used by UDPObject -------------------------------------------------
    def settimeout(self, t):
        self.timeout = t

    def gettimeout(self):
        return self.timeout

    def bind(self, addr):
        if self.closed:
            raise OSError(errno.EBADF, "Bad file descriptor")
        if self.addr is not None:
            raise OSError(errno.EINVAL, "Invalid argument")
        addr = (addr[0], int(addr[1]))
        if addr in self.net.bound:
            raise OSError(errno.EADDRINUSE, "Address already in use")
        self.addr = addr
        self.net.bound[addr] = self
        self.net.log.add("sock.bind", self.label, addr[1])

    def sendto(self, data, addr):
        if self.closed:
            raise OSError(errno.EBADF, "Bad file descriptor")
        if self.half_shut:
            raise BrokenPipeError(errno.EPIPE, "Broken pipe")
        if not isinstance(data, (bytes, bytearray)):
            raise TypeError("a bytes-like object is required, not '%s'" % type(data).__name__)
        if self.addr is None:
            self.addr = ("127.0.0.1", self.net.ephemeral())
            self.net.bound[self.addr] = self
        self.net.log.add("sock.sendto", self.label, bytes(data), addr[1])
        self.net.transmit(self, bytes(data), (addr[0], int(addr[1])))
        return len(data)

    def recvfrom(self, n, flags=0):
        if self.closed:
            raise OSError(errno.EBADF, "Bad file descriptor")
        net = self.net
        clock = net.clock
        tau = self.timeout
        if flags & ~(MSG_PEEK | MSG_DONTWAIT):
            raise HarnessError("recvfrom flags %#x are not modelled" % flags)
        if (tau is not None and tau <= 0) or (flags & MSG_DONTWAIT) or (flags & MSG_PEEK):
            # Non-blocking poll and/or peek: what is queued *now* (arrival <= now), else BlockingIOError (a peek on a
            # blocking socket waits like a read; that combination is not used by anything realistic and is treated
            # as a poll).  Not a receive position: the no-data fault is about reads that wait and time out.  A
            # non-peek poll that returns data consumes the datagram and IS a receive event.
            if self.inbox and self.inbox[0][0] <= clock.now:
                if flags & MSG_PEEK:
                    arrival, _, data, src = self.inbox[0]
                    net.log.add("sock.peek", self.label, data[:n])
                    return data[:n], src
                arrival, _, data, src = heapq.heappop(self.inbox)
                if len(data) > n:
                    net.stats["truncated"] += 1
                    data = data[:n]
                net.stats["delivered"] += 1
                pos = net.next_recv_pos()
                net.log.add("sock.recv", self.label, pos, data, clock.now)
                if net.hook_recv is not None:
                    net.hook_recv(self, pos, data)
                return data, src
            net.stats["would_block"] += 1
            if net.hook_recv is not None and not (flags & MSG_PEEK):
                net.hook_recv(self, None, None)      # a poll that found the socket dry (not a receive position)
            raise BlockingIOError(errno.EAGAIN, "Resource temporarily unavailable")
        pos = net.next_recv_pos()
        forced = pos in net.force_nodata
        if not forced and self.inbox:
            arrival = self.inbox[0][0]
            if tau is None or arrival <= clock.now + tau:
                arrival, _, data, src = heapq.heappop(self.inbox)
                clock.jump_to(arrival)
                if len(data) > n:
                    net.stats["truncated"] += 1
                    data = data[:n]
                net.stats["delivered"] += 1
                net.log.add("sock.recv", self.label, pos, data, clock.now)
                if net.hook_recv is not None:
                    net.hook_recv(self, pos, data)
                return data, src
        if tau is None:
            raise WouldHangForever("recvfrom on %s: no time-out set and nothing in flight" % (self.label,))
        if self.inbox:
            net.stats["held"] += 1
        if forced:
            net.stats["forced_timeouts"] += 1
        net.stats["timeouts"] += 1
        clock.advance(tau)
        net.log.add("sock.timeout", self.label, pos, clock.now, forced)
        if net.hook_recv is not None:
            net.hook_recv(self, pos, None)
        raise TimeoutError("timed out")

    def shutdown(self, how):
        if self.closed:
            raise OSError(errno.EBADF, "Bad file descriptor")
        # unconnected datagram socket: the kernel sets the shutdown flags and
        # still reports ENOTCONN (inet_shutdown, TCP_CLOSE case).
        self.half_shut = True
        self.net.log.add("sock.shutdown", self.label)
        raise OSError(errno.ENOTCONN, "Transport endpoint is not connected")

    def close(self):
        if self.closed:
            return
        self.closed = True
        if self.addr is not None and self.net.bound.get(self.addr) is self:
            del self.net.bound[self.addr]
        hook = getattr(self.net, "hook_close", None)
        if hook is not None:
            hook(self, [x[2] for x in sorted(self.inbox) if x[0] <= self.net.clock.now])
        self.inbox = []
        self.net.log.add("sock.close", self.label)

    def __del__(self):
        # dropped without close(): the interpreter closes it (and whatever had arrived dies with it)
        try:
            if not self.closed:
                self.close()
        except BaseException:       # noqa -- never let a finaliser disturb the run
            pass

    def fileno(self):
        # a fake descriptor number would make select()/poll() in the code under test wait on some REAL descriptor
        raise HarnessError("the code under test asked for socket.fileno() (select/poll on sockets is not modelled)")

    # -- harmless parts of the socket surface a refactor might start using -------------------------
    def setsockopt(self, *a):
        if self.closed:
            raise OSError(errno.EBADF, "Bad file descriptor")

    def getsockopt(self, *a):
        return 0

    def setblocking(self, flag):
        self.timeout = None if flag else 0.0

    def getsockname(self):
        return self.addr or ("0.0.0.0", 0)

    def recv(self, n, flags=0):
        return self.recvfrom(n, flags)[0]

    def connect(self, addr):
        self.peer = (addr[0], int(addr[1]))

    def send(self, data):
        peer = self.peer
        if peer is None:
            raise OSError(errno.EDESTADDRREQ, "Destination address required")
        return self.sendto(data, peer)

    def __enter__(self):
        return self

    def __exit__(self, *a):
        self.close()

    def __getattr__(self, name):
        raise HarnessError("the code under test used socket.%s(), which the simulated socket does not model" % name)


class SimSocketModule:
    """Replaces the name `socket` inside basic_robotics.interfaces.udp_bridge."""

    AF_INET = AF_INET
    SOCK_DGRAM = SOCK_DGRAM
    SHUT_RD, SHUT_WR, SHUT_RDWR = SHUT_RD, SHUT_WR, SHUT_RDWR
    MSG_PEEK, MSG_DONTWAIT = MSG_PEEK, MSG_DONTWAIT
    timeout = TimeoutError
    error = OSError
    SOL_SOCKET, SO_REUSEADDR, SO_REUSEPORT, SO_BROADCAST, SO_RCVBUF, SO_SNDBUF = 1, 2, 15, 6, 8, 7
    IPPROTO_UDP, IPPROTO_IP, INADDR_ANY = 17, 0, 0

    def __init__(self, net):
        self.net = net
        self.next_label = None

    def gethostbyname(self, name):
        return "127.0.0.1"

    def gethostname(self):
        return "simhost"

    def __getattr__(self, name):
        raise HarnessError("the code under test used socket.%s, which the simulated socket module does not model" % name)

    def socket(self, family=AF_INET, type=SOCK_DGRAM, proto=0):
        if family != AF_INET or type != SOCK_DGRAM:
            raise HarnessError("only AF_INET/SOCK_DGRAM is simulated")
        return SimSocket(self.net, self.next_label)
