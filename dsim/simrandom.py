"""A stand-in for the `random` module that the simulator owns.

Unit draws u in [0,1) come either from an explicit list (replay: the trace *is* the
schedule) or from a generator callable that returns the next group of draws (search).
Every consumed draw is recorded, so a run found by search can be written out as an
explicit list and replayed exactly.
"""
from . import HarnessError, Inconclusive

ONE_MINUS = 1.0 - 2.0 ** -53


class SimRandom:
    def __init__(self, explicit=None, source=None, budget=10 ** 6, ab_source=None):
        self.explicit = list(explicit) if explicit is not None else None
        self.source = source
        self.ab_source = ab_source     # callable(a, b) -> unit draw, for sources that aim at a *value*
        self.queue = []
        self.consumed = []
        self.budget = budget
        self.pos = 0
        self.on_draw = None

    def _next(self, a=None, b=None):
        if len(self.consumed) >= self.budget:
            raise Inconclusive("draw budget of %d exhausted" % self.budget)
        if self.explicit is not None:
            if self.pos >= len(self.explicit):
                raise Inconclusive("explicit draw list exhausted after %d draws" % self.pos)
            u = self.explicit[self.pos]
            self.pos += 1
        elif self.ab_source is not None:
            u = self.ab_source(a, b)
        else:
            if not self.queue:
                grp = self.source()
                if not grp:
                    raise HarnessError("draw source returned an empty group")
                self.queue.extend(grp)
            u = self.queue.pop(0)
        u = float(u)
        if not (0.0 <= u < 1.0):
            raise HarnessError("unit draw %r outside [0,1)" % (u,))
        self.consumed.append(u)
        return u

    def flush(self):
        """Drop generated-but-unconsumed draws so that the next group starts aligned."""
        self.queue = []

    # -- the subset of the random-module API the library (or a refactor of it) may use
    def random(self):
        return self._next()

    def uniform(self, a, b):
        return a + (b - a) * self._next(a, b)

    def randint(self, a, b):
        return a + int(self._next() * (b - a + 1))

    def randrange(self, a, b=None):
        if b is None:
            a, b = 0, a
        return a + int(self._next() * (b - a))

    def choice(self, seq):
        return seq[int(self._next() * len(seq))]

    def gauss(self, mu, sigma):
        # inverse-CDF free approximation is not needed: Box-Muller from two draws
        import math
        u1 = max(self._next(), 1e-300)
        u2 = self._next()
        return mu + sigma * math.sqrt(-2.0 * math.log(u1)) * math.cos(2 * math.pi * u2)

    def normalvariate(self, mu, sigma):
        return self.gauss(mu, sigma)

    def triangular(self, low=0.0, high=1.0, mode=None):
        u = self._next()
        c = 0.5 if mode is None else (mode - low) / (high - low)
        if u > c:
            u, c, low, high = 1.0 - u, 1.0 - c, high, low
        return low + (high - low) * (u * c) ** 0.5

    def expovariate(self, lambd):
        import math
        return -math.log(1.0 - self._next()) / lambd

    def getrandbits(self, k):
        return int(self._next() * (1 << min(k, 52))) << max(0, k - 52)

    def shuffle(self, x):
        for i in reversed(range(1, len(x))):
            j = int(self._next() * (i + 1))
            x[i], x[j] = x[j], x[i]

    def sample(self, population, k):
        pool = list(population)
        self.shuffle(pool)
        return pool[:k]

    def choices(self, population, weights=None, k=1):
        pop = list(population)
        if weights is None:
            return [pop[int(self._next() * len(pop))] for _ in range(k)]
        tot = float(sum(weights))
        out = []
        for _ in range(k):
            x, acc = self._next() * tot, 0.0
            for item, w in zip(pop, weights):
                acc += w
                if x < acc:
                    out.append(item)
                    break
            else:
                out.append(pop[-1])
        return out

    def seed(self, *a, **k):
        return None

    def __getattr__(self, name):
        raise HarnessError("the code under test used random.%s, which the simulated PRNG does not own" % name)
