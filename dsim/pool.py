"""Fork pool with a watchdog.  Chunk results are merged in chunk order, so the
outcome of a batch is a function of (seed, number of runs) and not of the
worker count or of scheduling by the operating system.
"""
import concurrent.futures as cf
import faulthandler
import multiprocessing
import os
import sys
import time

from . import HarnessError


def pin_threads():
    for k in ("OPENBLAS_NUM_THREADS", "OMP_NUM_THREADS", "MKL_NUM_THREADS", "NUMBA_NUM_THREADS"):
        os.environ.setdefault(k, "1")


def n_workers():
    try:
        w = int(os.environ.get("VERIF_WORKERS", "0"))
    except ValueError:
        w = 0
    if w > 0:
        return w
    return max(1, min(16, os.cpu_count() or 1))


def _guarded(fn, arg, hang_s):
    faulthandler.dump_traceback_later(hang_s, exit=True)
    try:
        return fn(arg)
    finally:
        faulthandler.cancel_dump_traceback_later()


def run_chunks(fn, chunks, wall_budget_s, hang_s=600, workers=None, on_result=None):
    """Run fn(chunk) for each chunk.  Returns (results in chunk order, skipped count).

    Chunks that had not started when the wall budget ran out are skipped
    (reported, never a failure).  A dead or hung worker is a HarnessError.
    """
    workers = workers or n_workers()
    t0 = time.monotonic()
    results = [None] * len(chunks)
    skipped = 0
    if workers == 1:
        for i, c in enumerate(chunks):
            if time.monotonic() - t0 > wall_budget_s:
                skipped = len(chunks) - i
                break
            results[i] = fn(c)
            if on_result:
                on_result(i, results[i])
        return results, skipped
    ctx = multiprocessing.get_context("fork")
    sys.stdout.flush()
    sys.stderr.flush()
    ex = cf.ProcessPoolExecutor(max_workers=workers, mp_context=ctx)
    try:
        pending = {}
        nxt = 0
        # keep at most 2*workers chunks in flight so that the wall budget can stop submission
        def submit_more():
            nonlocal nxt
            while nxt < len(chunks) and len(pending) < 2 * workers:
                if time.monotonic() - t0 > wall_budget_s:
                    return
                f = ex.submit(_guarded, fn, chunks[nxt], hang_s)
                pending[f] = nxt
                nxt += 1
        submit_more()
        while pending:
            done, _ = cf.wait(list(pending), timeout=hang_s + 30, return_when=cf.FIRST_COMPLETED)
            if not done:
                raise HarnessError("no worker finished a chunk within %ds (hung?)" % (hang_s + 30))
            for f in done:
                i = pending.pop(f)
                try:
                    results[i] = f.result()
                except cf.process.BrokenProcessPool as e:
                    raise HarnessError("worker died: %r" % (e,))
                if on_result:
                    on_result(i, results[i])
            submit_more()
        skipped = len(chunks) - nxt
    finally:
        ex.shutdown(wait=False, cancel_futures=True)
    return results, skipped
