"""Known findings: /verif/known_findings.json, committed, never written at run time.

Entry: {"property", "status": "known"|"fixed", "clause", "match": {...}, "what", "commit"?}
A violation is *known* iff an entry with status "known" has the same property and
clause and every key of `match` is satisfied by the violation's `signature`
(a flat dict the simulation computes from the minimised trace: call site, input
class, exception type ...).  "fixed" entries suppress nothing.
"""
import json
import os

from . import VERIF_ROOT

PATH = os.path.join(VERIF_ROOT, "known_findings.json")


def load():
    if not os.path.exists(PATH):
        return []
    with open(PATH) as f:
        data = json.load(f)
    return data.get("findings", [])


def _sat(pred, value):
    if isinstance(pred, dict):
        if "in" in pred:
            return value in pred["in"]
        if "le" in pred:
            return value is not None and value <= pred["le"]
        if "ge" in pred:
            return value is not None and value >= pred["ge"]
        if "contains" in pred:
            return isinstance(value, str) and pred["contains"] in value
        return False
    return pred == value


def match(prop, clause, signature, findings=None):
    """Return the matching *known* entry or None."""
    if findings is None:
        findings = load()
    for e in findings:
        if e.get("status") != "known":
            continue
        cl = e.get("clause")
        if e.get("property") != prop or not (clause == cl or (isinstance(cl, list) and clause in cl)):
            continue
        m = e.get("match", {})
        if all(_sat(p, signature.get(k)) for k, p in m.items()):
            return e
    return None
