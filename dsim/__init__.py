"""dsim -- a small deterministic-simulation core for basic_robotics.

One integer (VERIF_SEED) -> run seeds -> explicit traces -> executions.
Execution is a pure function of (trace, code under test); replay files hold
the trace, never the seed.  See /verif/DESIGN.md section 1.
"""
import os
import sys

VERIF_ROOT = os.path.dirname(os.path.dirname(os.path.abspath(__file__)))
OUT_DIR = os.path.join(VERIF_ROOT, "out")


def repo_root():
    return os.path.abspath(os.environ.get("VERIF_REPO", "/repo"))


def use_repo():
    """Put the tree under test first on sys.path and make sure it is what gets imported."""
    root = repo_root()
    if sys.path[0] != root:
        sys.path.insert(0, root)
    import basic_robotics  # noqa
    got = os.path.abspath(basic_robotics.__file__)
    if not got.startswith(root + os.sep):
        raise HarnessError("basic_robotics imported from %s, expected under %s" % (got, root))
    return root


class HarnessError(BaseException):
    """A fault of the verification machinery itself -- never a VIOLATION.

    Derives from BaseException (like the two below) so that an `except Exception` inside the code under test
    cannot swallow it."""


class Violation(BaseException):
    """The property is broken on this trace.  clause is the oracle clause id."""

    def __init__(self, clause, message, detail=None):
        super().__init__("%s: %s" % (clause, message))
        self.clause = clause
        self.message = message
        self.detail = detail or {}


class Inconclusive(BaseException):
    """A run that exhausted its step/draw budget: counted, never an alarm."""
