"""Batch driver shared by the three simulations.

A simulation module provides:
  PROP, LEVEL, TIERS {tier: {"runs", "wall", "chunk"}}, ASSUMPTIONS, RULE, REAL, STUB, EXPECTED_PROBES
  warmup()                        -- import / compile what the workers need (before fork)
  gen_trace(run_seed) -> trace
  variants(trace, run) -> list of traces (systematic fault placement; may be empty)
  execute(trace, keep_log=False, collect=True) -> (run, Violation|None)   [may raise Inconclusive]
  minimise(trace, clause, Budget) -> trace
  signature(trace, violation) -> dict
  describe(trace) -> short printable form for evidence samples
run objects expose: log.hexdigest(), probes, faults, states, transitions, n_nontrivial,
steps_done, sim_seconds (float or None)
"""
import importlib
import json
import os
import subprocess
import sys
import time
from collections import Counter

from . import HarnessError, Inconclusive, OUT_DIR, VERIF_ROOT, known, evidence
from .pool import run_chunks, pin_threads, n_workers
from .rng import run_seed
from .shrink import Budget
from .trace import digest, write_replay, read_replay, canon

SIMS = {"C19": "sims.c19_router", "C16": "sims.c16_rrt", "C07": "sims.c07_ik"}


def load_sim(prop):
    if prop not in SIMS:
        raise HarnessError("no simulation for property %r" % (prop,))
    return importlib.import_module(SIMS[prop])


MAX_FAIL_PER_CHUNK = 12
DIGEST_SAMPLE = 192


def _chunk(args):
    prop, base_seed, start, end, want_digests, want_samples = args
    sim = load_sim(prop)
    findings = [e for e in known.load() if e.get("status") == "known" and e.get("property") == prop]
    res = {"known_raw": Counter(), "runs": 0, "variants": 0, "steps": 0, "sim_seconds": 0.0, "inconclusive": 0,
           "probes": Counter(), "faults": Counter(), "states": set(), "transitions": set(),
           "nontrivial": set(), "digests": [], "failures": [], "samples": [], "executions": 0,
           "n_fail": 0}
    for idx in range(start, end):
        rs = run_seed(base_seed, prop, idx)
        trace = sim.gen_trace(rs)
        todo = [(0, trace)]
        first = True
        vi = 0
        while todo:
            vi, tr = todo.pop(0)
            try:
                run, viol = sim.execute(tr)
            except Inconclusive:
                res["inconclusive"] += 1
                res["executions"] += 1
                first = False
                continue
            res["executions"] += 1
            res["steps"] += run.steps_done
            if run.sim_seconds:
                res["sim_seconds"] += run.sim_seconds
            res["probes"].update(run.probes)
            res["faults"].update(run.faults)
            res["states"] |= run.states
            res["transitions"] |= run.transitions
            d = run.log.hexdigest()
            if run.n_nontrivial:
                res["nontrivial"].add(d)
            if first:
                res["runs"] += 1
                if want_digests and idx < DIGEST_SAMPLE:
                    res["digests"].append((idx, d))
                if want_samples and len(res["samples"]) < 3 and run.n_nontrivial:
                    res["samples"].append(sim.describe(tr))
                if viol is None:
                    for j, v in enumerate(sim.variants(tr, run)):
                        todo.append((j + 1, v))
                first = False
            else:
                res["variants"] += 1
            if viol is not None:
                res["n_fail"] += 1
                entry = known.match(prop, viol.clause, sim.signature(tr, viol), findings) if findings else None
                if entry is not None:
                    res["known_raw"][entry.get("id", entry.get("what", "?"))] += 1
                elif len(res["failures"]) < MAX_FAIL_PER_CHUNK:
                    res["failures"].append({"run": idx, "variant": vi, "clause": viol.clause,
                                            "message": viol.message, "trace": tr})
    return res


def _merge(results):
    tot = {"known_raw": Counter(), "runs": 0, "variants": 0, "steps": 0, "sim_seconds": 0.0, "inconclusive": 0,
           "probes": Counter(), "faults": Counter(), "states": set(), "transitions": set(),
           "nontrivial": set(), "digests": [], "failures": [], "samples": [], "executions": 0,
           "n_fail": 0}
    for r in results:
        if r is None:
            continue
        for k in ("runs", "variants", "steps", "sim_seconds", "inconclusive", "executions", "n_fail"):
            tot[k] += r[k]
        tot["probes"].update(r["probes"])
        tot["faults"].update(r["faults"])
        tot["known_raw"].update(r["known_raw"])
        for k in ("states", "transitions", "nontrivial"):
            tot[k] |= r[k]
        tot["digests"].extend(r["digests"])
        tot["failures"].extend(r["failures"])
        tot["samples"].extend(r["samples"])
    return tot


def digest_sample(prop, base_seed, n):
    """Digests of the first n runs, computed sequentially in this process."""
    sim = load_sim(prop)
    sim.warmup()
    out = []
    for idx in range(n):
        tr = sim.gen_trace(run_seed(base_seed, prop, idx))
        try:
            run, _ = sim.execute(tr)
            out.append((idx, run.log.hexdigest()))
        except Inconclusive:
            out.append((idx, "inconclusive"))
    return out


def _fresh_digests(prop, base_seed, n, hashseed):
    env = dict(os.environ)
    env["PYTHONHASHSEED"] = str(hashseed)
    env["VERIF_SEED"] = str(base_seed)
    cmd = [sys.executable, os.path.join(VERIF_ROOT, "check"), "digest", prop, "--n", str(n)]
    p = subprocess.run(cmd, env=env, stdout=subprocess.PIPE, stderr=subprocess.PIPE, text=True, timeout=900)
    if p.returncode != 0:
        raise HarnessError("digest subprocess failed: %s" % p.stderr[-2000:])
    for line in p.stdout.splitlines():
        if line.startswith("DIGESTS "):
            return [tuple(x) for x in json.loads(line[len("DIGESTS "):])]
    raise HarnessError("digest subprocess printed no DIGESTS line")


def replay_path(prop, clause, trace):
    return os.path.join(OUT_DIR, "replays", "%s-%s-%s.json" % (prop, clause, digest(trace)))


def report_failures(sim, failures, minimise_budget_s, findings=None):
    """Minimise, dedupe, match against known findings.  Returns (violations, known_hits, lines)."""
    prop = sim.PROP
    if findings is None:
        findings = known.load()
    failures = sorted(failures, key=lambda f: (f["run"], f["variant"]))
    per_clause = Counter()
    chosen = []
    for f in failures:
        if per_clause[f["clause"]] >= 3:
            continue
        per_clause[f["clause"]] += 1
        chosen.append(f)
    seen = set()
    violations = []
    known_hits = []
    lines = []
    t_each = max(5.0, minimise_budget_s / max(1, len(chosen)))
    for f in chosen:
        budget = Budget(max_tests=3000, max_seconds=t_each)
        try:
            small = sim.minimise(f["trace"], f["clause"], budget)
            run, viol = sim.execute(small, keep_log=False, collect=False)
            if viol is None or viol.clause != f["clause"]:
                small = f["trace"]
                run, viol = sim.execute(small, keep_log=False, collect=False)
        except Inconclusive:
            small = f["trace"]
            run, viol = sim.execute(small, keep_log=False, collect=False)
        if viol is None:
            raise HarnessError("failure of run %d did not reproduce in the parent" % f["run"])
        key = canon(small)
        if key in seen:
            continue
        seen.add(key)
        sig = sim.signature(small, viol)
        entry = known.match(prop, viol.clause, sig, findings)
        if entry is not None:
            # a known finding must explain the failure as it was FOUND, not only what minimisation turned it into
            # (simplification passes may move a tolerance or a start vector into a predicate)
            try:
                _, viol0 = sim.execute(f["trace"], keep_log=False, collect=False)
            except Inconclusive:
                viol0 = None
            if viol0 is None or known.match(prop, viol0.clause, sim.signature(f["trace"], viol0), [entry]) is None:
                entry = None
        payload = {"property": prop, "clause": viol.clause, "message": viol.message,
                   "signature": sig, "trace": small,
                   "found": {"run": f["run"], "variant": f["variant"], "minimise_tests": budget.tests},
                   "original_steps": len(f["trace"].get("steps", f["trace"].get("ops", []))),
                   }
        path = replay_path(prop, viol.clause, small)
        write_replay(path, payload)
        # confirm in a fresh interpreter that the replay file fails the same way
        ok = _replay_fresh(path)
        payload["replay_confirmed_fresh_process"] = ok
        if not ok:
            # fall back on the unminimised trace
            payload["trace"] = f["trace"]
            path = replay_path(prop, viol.clause, f["trace"])
        write_replay(path, payload)
        if entry is not None:
            known_hits.append((entry, path))
            lines.append("KNOWN-FINDING: property=%s %s [clause %s; replay=%s]" % (
                prop, entry.get("what", ""), viol.clause, path))
        else:
            violations.append((viol, path, ok))
            lines.append("VIOLATION property=%s replay=%s" % (prop, path))
            lines.append("  clause=%s %s" % (viol.clause, viol.message))
    return violations, known_hits, lines


def _replay_fresh(path):
    cmd = [sys.executable, os.path.join(VERIF_ROOT, "check"), "replay", path]
    p = subprocess.run(cmd, stdout=subprocess.PIPE, stderr=subprocess.PIPE, text=True, timeout=900)
    return p.returncode == 1 and "VIOLATION property=" in p.stdout


def replay(path):
    payload = read_replay(path)
    prop = payload["property"]
    sim = load_sim(prop)
    pin_threads()
    sim.warmup()
    try:
        run, viol = sim.execute(payload["trace"], keep_log=True, collect=False)
    except Inconclusive as e:
        print("replay of %s was inconclusive (%s)" % (path, e))
        return 0
    if viol is None:
        print("replay of %s: did not reproduce (property held on this trace)" % path)
        return 0
    same = viol.clause == payload.get("clause")
    print("VIOLATION property=%s replay=%s" % (prop, path))
    print("  clause=%s%s %s" % (viol.clause, "" if same else " (recorded: %s)" % payload.get("clause"), viol.message))
    if os.environ.get("VERIF_VERBOSE"):
        for ev in run.log.events[-60:]:
            print("   ", ev)
    return 1


def run_check(prop, tier):
    t0 = time.time()
    pin_threads()
    sim = load_sim(prop)
    base_seed = int(os.environ.get("VERIF_SEED", "0") or 0)
    cfg = dict(sim.TIERS[tier])
    if os.environ.get("VERIF_RUNS"):
        cfg["runs"] = int(os.environ["VERIF_RUNS"])
    if os.environ.get("VERIF_WALL"):
        cfg["wall"] = float(os.environ["VERIF_WALL"])
    print("VERIF_SEED=%d property=%s tier=%s runs<=%d wall<=%ds workers=%d" % (
        base_seed, prop, tier, cfg["runs"], cfg["wall"], n_workers()))
    sys.stdout.flush()
    os.environ["VERIF_TIER"] = tier
    sim.warmup()
    t_warm = time.time() - t0
    chunk = cfg.get("chunk", 200)
    chunks = []
    a = 0
    first = True
    while a < cfg["runs"]:
        b = min(cfg["runs"], a + chunk)
        chunks.append((prop, base_seed, a, b, a < DIGEST_SAMPLE, first))
        first = False
        a = b
    results, skipped = run_chunks(_chunk, chunks, cfg["wall"], hang_s=cfg.get("hang", 600))
    tot = _merge(results)
    t_batch = time.time() - t0 - t_warm

    # determinism self-test: the same runs, fresh interpreter, another PYTHONHASHSEED, one worker
    det = {"runs_compared": 0, "mismatches": 0, "how": "skipped"}
    det_failed = []
    n_det = min(cfg.get("det_sample", 64), len(tot["digests"]))
    if n_det:
        other = _fresh_digests(prop, base_seed, n_det, 12345)
        mine = dict(tot["digests"])
        mism = [i for i, d in other if mine.get(i) not in (d, None) and d != "inconclusive"]
        det = {"runs_compared": len(other), "mismatches": len(mism),
               "how": "fresh interpreter, PYTHONHASHSEED=12345, sequential vs %d forked workers" % n_workers()}
        det_failed = mism[:10]

    violations, known_hits, lines = report_failures(sim, tot["failures"], cfg.get("min_wall", 60.0))
    for ln in lines:
        print(ln)
    # known findings: directed replay of the committed failing trace of every listed finding, plus batch matches
    reported = set(e.get("id", e.get("what")) for e, _ in known_hits)
    for e in known.load():
        if e.get("status") != "known" or e.get("property") != prop:
            continue
        eid = e.get("id", e.get("what"))
        n_batch = tot["known_raw"].get(eid, 0)
        reproduced = None
        if e.get("replay"):
            rp = os.path.join(VERIF_ROOT, e["replay"])
            try:
                run, viol = sim.execute(read_replay(rp)["trace"], collect=False)
                reproduced = (viol is not None and known.match(prop, viol.clause, sim.signature(read_replay(rp)["trace"], viol), [e]) is not None)
            except Inconclusive:
                reproduced = False
        if eid in reported:
            continue
        if reproduced or n_batch:
            print("KNOWN-FINDING: property=%s %s [clause %s; directed replay %s; %d matching executions in this batch]" % (
                prop, e.get("what", ""), e.get("clause"),
                {True: "reproduces", False: "does NOT reproduce", None: "n/a"}[reproduced], n_batch))
            known_hits.append((e, e.get("replay")))
        else:
            print("NOTE known finding no longer reproduces: property=%s %s" % (prop, e.get("what", "")))
    wall = time.time() - t0
    expected = list(getattr(sim, "EXPECTED_PROBES", []))
    stuck = [p for p in expected if not tot["probes"].get(p)]
    cov = {
        "evaluations": tot["executions"],
        "distinct_nontrivial": len(tot["nontrivial"]),
        "rule": sim.RULE,
        "samples": tot["samples"][:3] or ["(no non-trivial sample in the first chunk)"],
        "states": len(tot["states"]),
        "transitions": len(tot["transitions"]),
        "base_histories": tot["runs"],
        "fault_placement_variants": tot["variants"],
        "steps": tot["steps"],
        "simulated_seconds": round(tot["sim_seconds"], 3) if getattr(sim, "HAS_CLOCK", False) else "n/a: no clock in this system",
        "runs_per_hour": int(tot["executions"] / max(t_batch, 1e-6) * 3600),
        "seeds": {"base_seed": base_seed, "run_indices": [0, tot["runs"]], "derivation": "blake2b(base_seed, property, index)"},
        "faults_fired": dict(sorted(tot["faults"].items())),
        "probes": dict(sorted(tot["probes"].items())),
        "probes_stuck_at_zero": stuck,
        "inconclusive": tot["inconclusive"],
        "chunks_skipped_for_wall_budget": skipped,
        "real_components": sim.REAL,
        "stub_components": sim.STUB,
        "determinism_selftest": det,
        "failing_executions": tot["n_fail"],
        "known_finding_executions": dict(tot["known_raw"]),
        "known_findings_matched": [e.get("what") for e, _ in known_hits],
        "warmup_s": round(t_warm, 2),
        "exhaustive": False,
    }
    evidence.write(prop, tier, base_seed, sim.LEVEL, cov, sim.ASSUMPTIONS, wall, len(violations))
    print("%s %s: %d base runs + %d fault-placement variants, %d steps, %d distinct non-trivial, "
          "%d states / %d transitions, %d inconclusive, %.1fs (%.0f exec/h)%s" % (
              prop, tier, tot["runs"], tot["variants"], tot["steps"], len(tot["nontrivial"]),
              len(tot["states"]), len(tot["transitions"]), tot["inconclusive"], wall,
              cov["runs_per_hour"], (" ; %d chunks skipped (wall budget)" % skipped) if skipped else ""))
    if stuck:
        print("WARNING probes stuck at zero: %s" % ", ".join(stuck))
    if det_failed:
        # Reported after the batch summary so that what the batch found is not lost.  A violation whose replay file failed the
        # same way in a fresh interpreter stands on its own (the tree under test may itself have become dependent on hash
        # order or on the clock -- seeded change c19p iterates over a set of strings); without one, nothing a nondeterministic
        # batch reports is trusted: harness error (typical cause: /repo edited while the check ran)
        if any(v[2] for v in violations):
            print("WARNING determinism self-test failed for run indices %r: the tree under test does not behave the same from one "
                  "interpreter to the next; the violations above were each reproduced from their replay file in a fresh "
                  "interpreter" % (det_failed,))
            return 1
        raise HarnessError("determinism self-test failed for run indices %r" % (det_failed,))
    if tot["runs"] == 0:
        raise HarnessError("no run completed")
    if len(tot["nontrivial"]) < 2:
        raise HarnessError("vacuous batch: fewer than two distinct non-trivial executions")
    if violations:
        return 1
    print("OK property=%s held on everything explored%s" % (
        prop, (" (%d known finding(s) matched)" % len(known_hits)) if known_hits else ""))
    return 0
