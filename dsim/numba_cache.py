"""Content-keyed Numba cache outside /repo (Numba validates its cache by mtime+size only)."""
import hashlib
import os

from . import OUT_DIR, repo_root

JIT_SOURCES = ["basic_robotics/modern_robotics_numba/modern_high_performance.py",
               "basic_robotics/general/faser_high_performance.py",
               "basic_robotics/general/faser_transform.py"]


def configure():
    if os.environ.get("NUMBA_CACHE_DIR"):
        return os.environ["NUMBA_CACHE_DIR"]
    h = hashlib.sha256()
    root = repo_root()
    for rel in JIT_SOURCES:
        p = os.path.join(root, rel)
        try:
            with open(p, "rb") as f:
                h.update(f.read())
        except OSError:
            h.update(b"missing:" + rel.encode())
    h.update(root.encode())
    d = os.path.join(OUT_DIR, "numba", h.hexdigest()[:16])
    os.makedirs(d, exist_ok=True)
    os.environ["NUMBA_CACHE_DIR"] = d
    return d
