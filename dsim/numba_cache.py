"""Content-keyed Numba cache outside /repo (Numba validates its cache by mtime+size only)."""
import hashlib
import os

from . import OUT_DIR, repo_root

JIT_SOURCES = ["basic_robotics/modern_robotics_numba/modern_high_performance.py",
               "basic_robotics/general/faser_high_performance.py",
               "basic_robotics/general/faser_transform.py"]


def configure():
    if os.environ.get("NUMBA_CACHE_DIR"):
        return os.environ["NUMBA_CACHE_DIR"]
    h = hashlib.sha256()
    root = repo_root()
    for rel in JIT_SOURCES:
        p = os.path.join(root, rel)
        try:
            with open(p, "rb") as f:
                h.update(f.read())
        except OSError:
            h.update(b"missing:" + rel.encode())
    h.update(root.encode())
    d = os.path.join(OUT_DIR, "numba", h.hexdigest()[:16])
    os.makedirs(d, exist_ok=True)
    os.environ["NUMBA_CACHE_DIR"] = d
    if root != "/repo":
        # remember which scratch root a cache belongs to, so that the self-tests can delete it afterwards
        import json
        marker = os.path.join(OUT_DIR, "numba", "roots.json")
        try:
            roots = json.load(open(marker))
        except Exception:
            roots = {}
        roots[os.path.basename(d)] = root
        try:
            json.dump(roots, open(marker, "w"))
        except OSError:
            pass
    return d
