"""Self-tests of the machinery: determinism, sensitivity (mutants, seeded changes), stub fidelity.

  check selftest determinism [C07 C16 C19]
  check selftest mutants [prop or mutant-id ...]      scratch copies of /repo under $TMPDIR, removed afterwards
  check selftest seeded [id ...]                       the sub-agent changes kept in /verif/seeded/<id>/patch.diff
  check selftest variants [id | prop | silent | kill]   reviewer-written library variants: legit ones silent, defects killed
  check selftest fidelity                              C19 socket stub vs real 127.0.0.1 sockets
None of this is part of quick_cmd; results are written to /verif/out/selftest-*.json.
"""
import json
import os
import shutil
import subprocess
import sys
import tempfile
import time

from . import HarnessError, OUT_DIR, VERIF_ROOT, repo_root
from . import driver
from .pool import run_chunks, pin_threads

CHECK = os.path.join(VERIF_ROOT, "check")


def _digests_fresh(prop, seed, n, hashseed):
    env = dict(os.environ)
    env["PYTHONHASHSEED"] = str(hashseed)
    env["VERIF_SEED"] = str(seed)
    p = subprocess.run([sys.executable, CHECK, "digest", prop, "--n", str(n)], env=env,
                       stdout=subprocess.PIPE, stderr=subprocess.PIPE, text=True, timeout=1800)
    if p.returncode != 0:
        raise HarnessError("digest subprocess failed: %s" % p.stderr[-1500:])
    for line in p.stdout.splitlines():
        if line.startswith("DIGESTS "):
            return dict((int(i), d) for i, d in json.loads(line[8:]))
    raise HarnessError("no DIGESTS line")


def _digest_chunk(args):
    prop, seed, a, b = args
    from .rng import run_seed
    from . import Inconclusive
    sim = driver.load_sim(prop)
    out = []
    for idx in range(a, b):
        tr = sim.gen_trace(run_seed(seed, prop, idx))
        try:
            run, _ = sim.execute(tr)
            out.append((idx, run.log.hexdigest()))
        except Inconclusive:
            out.append((idx, "inconclusive"))
    return out


def determinism(props):
    pin_threads()
    sizes = {"C19": 2000, "C16": 160, "C07": 600}
    report = {}
    bad = 0
    for prop in props:
        n = int(os.environ.get("VERIF_DET_N", sizes[prop]))
        seed = int(os.environ.get("VERIF_SEED", "0") or 0)
        t0 = time.time()
        sim = driver.load_sim(prop)
        sim.warmup()
        views = {}
        for hs in (0, 1, 12345):
            views["fresh-interpreter PYTHONHASHSEED=%d" % hs] = _digests_fresh(prop, seed, n, hs)
        step = max(1, n // 64)
        chunks = [(prop, seed, a, min(n, a + step)) for a in range(0, n, step)]
        for w in (16, 3):
            res, _ = run_chunks(_digest_chunk, chunks, 3600, workers=w)
            views["forked pool, %d workers" % w] = dict(x for r in res for x in r)
        # same seeds a second time in this very process, after all the others ran (state leakage between runs)
        views["same process, second pass"] = dict(_digest_chunk((prop, seed, 0, n)))
        ref_name, ref = next(iter(views.items()))
        mism = {}
        for name, v in views.items():
            d = [i for i in range(n) if v.get(i) != ref.get(i)]
            if d:
                mism[name] = d[:10]
        report[prop] = {"runs": n, "views": list(views), "mismatching_run_indices": mism, "wall_s": round(time.time() - t0, 1)}
        print("determinism %s: %d run seeds x %d views -> %s (%.0fs)" % (
            prop, n, len(views), "IDENTICAL" if not mism else "MISMATCH %r" % mism, time.time() - t0))
        bad += len(mism)
    _write("selftest-determinism.json", report)
    if bad:
        print("HARNESS-ERROR determinism self-test failed")
        return 2
    return 0


def _write(name, doc):
    os.makedirs(OUT_DIR, exist_ok=True)
    with open(os.path.join(OUT_DIR, name), "w") as f:
        json.dump(doc, f, indent=1, sort_keys=True)


def _scratch_copy():
    d = tempfile.mkdtemp(prefix="brverif-")
    subprocess.run(["rsync", "-a", "--exclude", ".git", "--exclude", "__pycache__", "--exclude", "lib64",
                    repo_root() + "/", d + "/"], check=True)
    return d


def _run_check_on(scratch, prop, runs):
    env = dict(os.environ)
    env["VERIF_REPO"] = scratch
    env["VERIF_RUNS"] = str(runs)
    env["VERIF_EVIDENCE_DIR"] = os.path.join(OUT_DIR, "scratch-evidence")
    env.pop("NUMBA_CACHE_DIR", None)
    t0 = time.time()
    p = subprocess.run([sys.executable, CHECK, prop, "--tier", "quick"], env=env, stdout=subprocess.PIPE,
                       stderr=subprocess.STDOUT, text=True, timeout=3600)
    viol = [l for l in p.stdout.splitlines() if l.startswith("VIOLATION property=")]
    clauses = sorted(set(l.split("clause=")[1].split()[0] for l in p.stdout.splitlines() if l.strip().startswith("clause=")))
    msgs = [l.strip()[:260] for l in p.stdout.splitlines() if l.strip().startswith("clause=")][:3]
    return {"exit": p.returncode, "violations": len(viol), "clauses": clauses, "wall_s": round(time.time() - t0, 1), "messages": msgs,
            "tail": p.stdout.splitlines()[-4:] if p.returncode not in (0, 1) else []}


RUNS = {"C19": 8000, "C16": 2500, "C07": 8000}


def mutants(sel):
    sys.path.insert(0, os.path.join(VERIF_ROOT, "mutants"))
    import defs
    todo = [m for m in defs.M if not sel or m["id"] in sel or m["prop"] in sel]
    results = []
    ok_all = True
    for mt in todo:
        scratch = _scratch_copy()
        try:
            path = os.path.join(scratch, mt["file"])
            src = open(path).read()
            if src.count(mt["old"]) != mt["count"]:
                results.append(dict(id=mt["id"], status="STALE", note="old text occurs %d times, expected %d" % (src.count(mt["old"]), mt["count"])))
                print("mutant %-36s STALE (pattern occurs %d times)" % (mt["id"], src.count(mt["old"])))
                ok_all = False
                continue
            src = src.replace(mt["old"], mt["new"])
            for o2, n2 in mt.get("more", ()):
                if src.count(o2) != 1:
                    raise HarnessError("mutant %s: secondary pattern occurs %d times" % (mt["id"], src.count(o2)))
                src = src.replace(o2, n2)
            open(path, "w").write(src)
            r = _run_check_on(scratch, mt["prop"], int(os.environ.get("VERIF_RUNS", RUNS[mt["prop"]])))
        finally:
            shutil.rmtree(scratch, ignore_errors=True)
            _drop_numba_cache_for(scratch)
        killed = r["exit"] == 1 and r["violations"] > 0
        status = "KILLED" if killed else ("SURVIVED" if r["exit"] == 0 else "ERROR")
        expect = mt["expect"]
        fine = (expect == "kill" and killed) or (expect == "survive" and status == "SURVIVED")
        ok_all = ok_all and fine
        results.append(dict(id=mt["id"], prop=mt["prop"], status=status, expected=expect, as_expected=fine,
                            clauses=r["clauses"], wall_s=r["wall_s"], why=mt["why"], tail=r["tail"], messages=r["messages"]))
        print("mutant %-36s %-8s (expected %s) clauses=%s %.0fs%s" % (
            mt["id"], status, expect, ",".join(r["clauses"]), r["wall_s"], "" if fine else "   <-- UNEXPECTED"))
    _write("selftest-mutants.json", results)
    return 0 if ok_all else 2


def _drop_numba_cache_for(scratch):
    # caches are keyed by (source hash, root); scratch roots are unique, so their caches are garbage afterwards
    base = os.path.join(OUT_DIR, "numba")
    marker = os.path.join(base, "roots.json")
    try:
        roots = json.load(open(marker))
    except Exception:
        return
    for d, root in list(roots.items()):
        if root == scratch:
            shutil.rmtree(os.path.join(base, d), ignore_errors=True)
            roots.pop(d)
    json.dump(roots, open(marker, "w"))


def seeded(sel):
    base = os.path.join(VERIF_ROOT, "seeded")
    ids = sorted(d for d in os.listdir(base) if os.path.exists(os.path.join(base, d, "patch.diff"))) if os.path.isdir(base) else []
    ids = [i for i in ids if not sel or i in sel]
    results = []
    ok_all = True
    for sid in ids:
        meta = json.load(open(os.path.join(base, sid, "meta.json")))
        prop = meta["property"]
        scratch = _scratch_copy()
        try:
            p = subprocess.run(["patch", "-p1", "-s", "-i", os.path.join(base, sid, "patch.diff")], cwd=scratch,
                               stdout=subprocess.PIPE, stderr=subprocess.STDOUT, text=True)
            if p.returncode != 0:
                results.append(dict(id=sid, status="STALE", note=p.stdout[-400:]))
                print("seeded %-28s STALE: %s" % (sid, p.stdout.strip().splitlines()[-1] if p.stdout.strip() else ""))
                ok_all = False
                continue
            # (a change with a low trigger rate may name the number of runs it needs: still at most the quick tier's own size)
            r = _run_check_on(scratch, prop, int(os.environ.get("VERIF_RUNS", meta.get("selftest_runs", RUNS[prop]))))
        finally:
            shutil.rmtree(scratch, ignore_errors=True)
            _drop_numba_cache_for(scratch)
        killed = r["exit"] == 1 and r["violations"] > 0
        expect = meta.get("expected_by_quick", "kill")
        status = "KILLED" if killed else ("SURVIVED" if r["exit"] == 0 else "ERROR")
        fine = status != "ERROR" and (expect == "any" or (expect == "kill") == killed)
        ok_all = ok_all and fine
        results.append(dict(id=sid, prop=prop, status=status, expected=expect, clauses=r["clauses"], wall_s=r["wall_s"], tail=r["tail"],
                            messages=r["messages"]))
        print("seeded %-28s %-8s (expected %s) clauses=%s %.0fs" % (sid, status, expect, ",".join(r["clauses"]), r["wall_s"]))
        for mline in r["messages"][:1]:
            print("        " + mline)
    _write("selftest-seeded.json", results)
    return 0 if ok_all else 2


def variants(sel):
    """Reviewer-written library variants (/verif/variants/*.diff): legitimate ones must stay silent, defects must be killed."""
    base = os.path.join(VERIF_ROOT, "variants")
    idx = json.load(open(os.path.join(base, "index.json")))["variants"]
    todo = [v for v in idx if not sel or v["id"] in sel or v["prop"] in sel or v["expect"] in sel]
    results = []
    ok_all = True
    for v in todo:
        scratch = _scratch_copy()
        try:
            p = subprocess.run(["patch", "-p0", "-s", "-i", os.path.join(base, v["id"] + ".diff")], cwd=scratch,
                               stdout=subprocess.PIPE, stderr=subprocess.STDOUT, text=True)
            if p.returncode != 0:
                print("variant %-34s STALE: %s" % (v["id"], (p.stdout.strip().splitlines() or [""])[-1]))
                results.append(dict(id=v["id"], status="STALE"))
                ok_all = False
                continue
            r = _run_check_on(scratch, v["prop"], int(os.environ.get("VERIF_RUNS", RUNS[v["prop"]])))
        finally:
            shutil.rmtree(scratch, ignore_errors=True)
            _drop_numba_cache_for(scratch)
        status = {0: "SILENT", 1: "KILLED"}.get(r["exit"], "HARNESS")
        want = {"silent": "SILENT", "kill": "KILLED", "harness": "HARNESS"}.get(v["expect"])
        fine = want is None or status == want
        ok_all = ok_all and fine
        results.append(dict(id=v["id"], prop=v["prop"], status=status, expected=v["expect"], clauses=r["clauses"],
                            messages=r["messages"], wall_s=r["wall_s"], tail=r["tail"], note=v["note"]))
        print("variant %-34s %-8s (expected %-7s) clauses=%s %.0fs%s" % (
            v["id"], status, v["expect"], ",".join(r["clauses"]), r["wall_s"], "" if fine else "   <-- UNEXPECTED"))
        if status != "SILENT":
            for mline in (r["messages"][:1] or r["tail"][-1:]):
                print("        " + str(mline)[:230])
    _write("selftest-variants.json", results)
    return 0 if ok_all else 2


def main(argv):
    if not argv:
        print(__doc__)
        return 2
    what, rest = argv[0], argv[1:]
    if what == "determinism":
        return determinism(rest or ["C19", "C16", "C07"])
    if what == "mutants":
        return mutants(rest)
    if what == "seeded":
        return seeded(rest)
    if what == "variants":
        return variants(rest)
    if what == "fidelity":
        from sims import c19_fidelity
        return c19_fidelity.main(rest)
    print(__doc__)
    return 2
