"""Canonical JSON, digests and replay files."""
import hashlib
import json
import os


def canon(obj):
    """Canonical JSON text: sorted keys, exact float reprs, no whitespace."""
    return json.dumps(obj, sort_keys=True, separators=(",", ":"), allow_nan=True)


def digest(obj):
    return hashlib.blake2b(canon(obj).encode("utf-8"), digest_size=8).hexdigest()


def digest_int(obj):
    return int.from_bytes(hashlib.blake2b(canon(obj).encode("utf-8"), digest_size=8).digest(), "big")


class EventLog:
    """Ordered event log of one run; digested incrementally (exact reprs)."""

    __slots__ = ("events", "_h", "keep")

    def __init__(self, keep=True):
        self.events = []
        self._h = hashlib.blake2b(digest_size=8)
        self.keep = keep

    def add(self, *ev):
        self._h.update(repr(ev).encode("utf-8"))
        if self.keep:
            self.events.append(ev)

    def mark(self):
        return len(self.events)

    def since(self, mark):
        return self.events[mark:]

    def hexdigest(self):
        return self._h.hexdigest()


def write_replay(path, payload):
    os.makedirs(os.path.dirname(path), exist_ok=True)
    tmp = path + ".tmp"
    with open(tmp, "w") as f:
        json.dump(payload, f, indent=1, sort_keys=True)
        f.write("\n")
    os.replace(tmp, path)


def read_replay(path):
    with open(path) as f:
        return json.load(f)
