"""Seed derivation: every component draws from its own sub-stream.

Never uses hash() (PYTHONHASHSEED) and never the process-global PRNG.
"""
import hashlib
import random


def derive(*parts):
    """64-bit integer from a tuple of ints/strings, stable across processes."""
    h = hashlib.blake2b(digest_size=8)
    for p in parts:
        h.update(repr(p).encode("utf-8"))
        h.update(b"\x00")
    return int.from_bytes(h.digest(), "big")


def stream(*parts):
    return random.Random(derive(*parts))


def run_seed(base_seed, prop, index):
    return derive("run", int(base_seed), prop, int(index))


def pick_weighted(rng, table):
    """table: list of (item, weight) in a FIXED order."""
    total = 0.0
    for _, w in table:
        total += w
    x = rng.random() * total
    acc = 0.0
    for item, w in table:
        acc += w
        if x < acc:
            return item
    return table[-1][0]


def log_uniform(rng, lo, hi):
    import math
    return math.exp(rng.uniform(math.log(lo), math.log(hi)))
