"""Delta debugging (ddmin) over step lists plus a generic fixed-point driver.

`test(candidate) -> bool` must return True iff the candidate still fails in the
same violation class.  Every test call is a full deterministic re-execution.
"""
import time


class Budget:
    def __init__(self, max_tests=4000, max_seconds=60.0):
        self.max_tests = max_tests
        self.deadline = time.monotonic() + max_seconds
        self.tests = 0

    def spend(self):
        self.tests += 1
        return self.tests <= self.max_tests and time.monotonic() < self.deadline

    def left(self):
        return self.tests < self.max_tests and time.monotonic() < self.deadline


def ddmin(items, test, budget):
    """Classic ddmin: returns a 1-minimal (budget permitting) failing sublist."""
    items = list(items)
    n = 2
    while len(items) >= 1 and budget.left():
        chunk = max(1, len(items) // n)
        reduced = False
        # try removing each chunk (complements), largest effect first
        i = 0
        while i < len(items) and budget.left():
            cand = items[:i] + items[i + chunk:]
            if not budget.spend():
                break
            if test(cand):
                items = cand
                n = max(n - 1, 2)
                reduced = True
                # do not advance i: the next chunk slid into place
            else:
                i += chunk
        if not reduced:
            if chunk == 1:
                break
            n = min(len(items), n * 2)
    return items


def fixpoint(state, passes, budget, max_rounds=6):
    """Run simplification passes until none makes progress.

    Each pass is `f(state, budget) -> (new_state, changed)`.
    """
    for _ in range(max_rounds):
        any_change = False
        for p in passes:
            if not budget.left():
                return state
            state, changed = p(state, budget)
            any_change = any_change or changed
        if not any_change:
            break
    return state
