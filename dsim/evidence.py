"""Evidence writer (schema: /root/.vp/EVIDENCE.schema.json)."""
import json
import os

from . import VERIF_ROOT


def write(prop, tier, seed, level, coverage, assumptions, wall_s, violations, extra=None):
    # VERIF_EVIDENCE_DIR: used only by the sensitivity self-tests, so that a run against a mutated scratch copy
    # never overwrites the evidence of /repo
    path = os.path.join(os.environ.get("VERIF_EVIDENCE_DIR") or os.path.join(VERIF_ROOT, "evidence"), "%s.json" % prop)
    os.makedirs(os.path.dirname(path), exist_ok=True)
    doc = {
        "property_id": prop,
        "tier": tier,
        "seed": int(seed),
        "level": level,
        "coverage": coverage,
        "assumptions": assumptions,
        "wall_s": round(float(wall_s), 3),
        "violations": int(violations),
    }
    if extra:
        doc.update(extra)
    tmp = path + ".tmp"
    with open(tmp, "w") as f:
        json.dump(doc, f, indent=1, sort_keys=True, default=str)
        f.write("\n")
    os.replace(tmp, path)
    if tier == "thorough" and not os.environ.get("VERIF_EVIDENCE_DIR"):
        # keep the last thorough run next to the (usually quick) evidence file the harness rewrites
        keep = os.path.join(os.path.dirname(path), "thorough")
        os.makedirs(keep, exist_ok=True)
        with open(os.path.join(keep, "%s.json" % prop), "w") as f:
            json.dump(doc, f, indent=1, sort_keys=True, default=str)
            f.write("\n")
    return path
