"""C07 -- arm inverse kinematics never claims a pose it has not reached.

Arm.IK / constrainedIK are retry policies: a first Newton attempt, then up to `level`
restarts from joint vectors drawn with random.uniform, then one of several state
write-backs.  Which branch runs, what is returned and what state the arm is left in
depend on draws the caller never sees.  The simulator replaces the name `random`
inside arm_model by dsim.simrandom.SimRandom: one trace is one exact execution, and
scripted draws force "success on restart k" / "all restarts fail" at any iteration
budget.  Short operation histories exercise IK on arms that were moved, re-tooled and
re-limited, with the state left by one solve being the default start of the next.
See DESIGN.md section 4.

Real: Arm, loadArmFromURDF, all fmr kernels (Numba), scipy.optimize.root in IKFree.
Stub: `random` inside arm_model, sys.stdout.
"""
import json
import io
import math
import os
import sys
from collections import Counter

import numpy as np

from dsim import HarnessError, Violation, Inconclusive, repo_root
from dsim.rng import stream, pick_weighted, log_uniform
from dsim.simrandom import SimRandom, ONE_MINUS
from dsim.trace import EventLog, digest_int

PROP = "C07"
# Rotations below ~1.5e-8 rad are invisible to Modern Robotics' MatrixLog3 (acos of (trace-1)/2 rounds to 0 when
# angle^2/2 < 2^-53).  Violations inside this zone are one known finding, matched by this bound (known_findings.json).
ANG_BLIND = 3e-7
URDFS = ["irb_2400", "ur5", "puma_560", "ur_description/ur10", "ur_description/ur5"]

_m = {}


def _load():
    if not _m:
        from basic_robotics.kinematics import arm_model
        from basic_robotics.general import tm, fsr, fmr
        _m["fmr"] = fmr
        _m["am"] = arm_model
        _m["tm"] = tm
        _m["fsr"] = fsr
        _m["real_random"] = arm_model.random
    return _m


class _Null(io.TextIOBase):
    def write(self, s):
        return len(s)


# --------------------------------------------------------------------------- independent kinematics

def skew(w):
    return np.array([[0.0, -w[2], w[1]], [w[2], 0.0, -w[0]], [-w[1], w[0], 0.0]])


def exp_twist(S, th):
    """exp([S] th) for a screw S = (w, v) -- own implementation, no fmr."""
    w, v = S[:3], S[3:]
    T = np.eye(4)
    wn = np.linalg.norm(w)
    if wn < 1e-12:
        T[:3, 3] = v * th
        return T
    w = w / wn
    v = v / wn
    th = th * wn
    W = skew(w)
    W2 = W @ W
    R = np.eye(3) + math.sin(th) * W + (1 - math.cos(th)) * W2
    G = np.eye(3) * th + (1 - math.cos(th)) * W + (th - math.sin(th)) * W2
    T[:3, :3] = R
    T[:3, 3] = G @ v
    return T


def poe(screws, M, theta):
    T = np.eye(4)
    for i in range(screws.shape[1]):
        T = T @ exp_twist(screws[:, i], float(theta[i]))
    return T @ M


def space_jacobian(screws, theta):
    n = screws.shape[1]
    J = np.zeros((6, n))
    T = np.eye(4)
    for i in range(n):
        R, p = T[:3, :3], T[:3, 3]
        Ad = np.zeros((6, 6))
        Ad[:3, :3] = R
        Ad[3:, 3:] = R
        Ad[3:, :3] = skew(p) @ R
        J[:, i] = Ad @ screws[:, i]
        T = T @ exp_twist(screws[:, i], float(theta[i]))
    return J


def rot_log(R):
    """Rotation vector of R (robust near 0 and pi)."""
    v = np.array([R[2, 1] - R[1, 2], R[0, 2] - R[2, 0], R[1, 0] - R[0, 1]]) * 0.5
    s = np.linalg.norm(v)
    c = (np.trace(R) - 1) * 0.5
    ang = math.atan2(s, c)
    if s < 1e-9:
        if c > 0:
            return v          # ~ zero rotation: v ~ angle*axis
        # angle ~ pi
        A = (R + np.eye(3)) / 2
        ax = np.sqrt(np.maximum(np.diag(A), 0))
        i = int(np.argmax(ax))
        ax = A[:, i] / max(ax[i], 1e-300)
        return ax / max(np.linalg.norm(ax), 1e-300) * ang
    return v / s * ang


def pose_errors(T, G):
    """Errors between the reached pose T and the goal G (4x4).

    Returns (angular error, [three readings of the linear error]):
    |v_s| (space-frame twist, what Modern Robotics' IKinSpace measures), |v_b| (body twist), |dp|.
    """
    E = np.linalg.inv(T) @ G
    wb = rot_log(E[:3, :3])
    ang = float(np.linalg.norm(wb))
    p = E[:3, 3]
    if ang < 1e-12:
        vb = p
    else:
        W = skew(wb / ang)
        Ginv = np.eye(3) / ang - 0.5 * W + (1 / ang - 0.5 / math.tan(ang / 2)) * (W @ W)
        vb = Ginv @ p * ang
    R, pt = T[:3, :3], T[:3, 3]
    ws = R @ wb
    vs = np.cross(pt, ws) + R @ vb
    dp = G[:3, 3] - T[:3, 3]
    return ang, [float(np.linalg.norm(vs)), float(np.linalg.norm(vb)), float(np.linalg.norm(dp))]


def fk_variants(screws, M, theta, lib_fk):
    """All readings of "forward kinematics of theta" that differ only by Modern Robotics' NearZero rule.

    The library's FKinSpace drops the rotation of any joint whose angle is below 1e-6 rad, and it is not 2*pi
    periodic at that level (760.2654 rad is rotated exactly, its wrapped image 6e-9 rad is dropped).  A solver
    that iterates with that FK and then wraps its answer therefore agrees with neither the library FK nor an
    exact product of exponentials of the *returned* vector, but with one where some of the tiny angles are
    dropped and others kept.  Yields the library reading, the exact one, and (only when tiny angles exist) every
    keep/drop combination -- at most 2^n, n <= 7.
    """
    theta = np.asarray(theta, float).reshape(-1)
    yield np.array(lib_fk(M, screws, theta.copy()), float)
    yield poe(screws, M, theta)
    wrapped = (theta + math.pi) % (2 * math.pi) - math.pi
    tiny = [j for j in range(len(theta)) if abs(wrapped[j]) < 1e-6 and wrapped[j] != 0.0]
    if tiny:
        for mask in range(1, 2 ** len(tiny)):
            # Modern Robotics' MatrixExp6 on a twist with |omega*theta| < 1e-6 returns (identity rotation, v*theta):
            # the rotation is dropped, the linear part of the twist is kept.  Reproduce exactly that for the chosen joints.
            T = np.eye(4)
            for i in range(screws.shape[1]):
                b = tiny.index(i) if i in tiny else -1
                if b >= 0 and (mask >> b & 1):
                    E = np.eye(4)
                    E[:3, 3] = screws[3:, i] * wrapped[i]
                    T = T @ E
                else:
                    T = T @ exp_twist(screws[:, i], float(theta[i]))
            yield T @ M


def ang_diff(a, b):
    d = (np.asarray(a, float) - np.asarray(b, float) + math.pi) % (2 * math.pi) - math.pi
    return float(np.max(np.abs(d))) if d.size else 0.0


# --------------------------------------------------------------------------- arms

def _six_r(tm, Arm):
    L1, L2, L3, W = 4.5, 3.75, 3.75, 0.1
    ee = tm(np.array([[L2 + L3 + W + W + W], [0], [L1], [0], [0], [0]]))
    axes = np.array([[0, 0, 1], [0, 1, 0], [0, 1, 0], [1, 0, 0], [0, 1, 0], [1, 0, 0]], float).T
    homes = np.array([[0, 0, 0], [0, 0, L1], [L2, 0, L1], [L2 + L3, 0, L1], [L2 + L3 + W, 0, L1],
                      [L2 + L3 + 2 * W, 0, L1]], float).T
    screws = np.zeros((6, 6))
    for i in range(6):
        screws[:, i] = np.hstack((axes[:, i], np.cross(homes[:, i], axes[:, i])))
    return screws, ee, homes, axes


def build_arm(spec):
    m = _load()
    tm = m["tm"]
    am = m["am"]
    base = tm(list(spec["base"])) if spec.get("base") else tm()
    kind = spec["kind"]
    old = sys.stdout
    sys.stdout = _Null()
    try:
        if kind == "urdf":
            path = os.path.join(repo_root(), "tests", "test_helpers", spec["file"] + ".urdf")
            arm = am.loadArmFromURDF(path)
            if arm is None:
                raise HarnessError("could not load %s" % path)
            if spec.get("base"):
                arm.move(base)
        elif kind == "6R":
            screws, ee, homes, axes = _six_r(tm, am.Arm)
            arm = am.Arm(base, screws.copy(), ee, homes.copy(), axes.copy())
            arm.setJointProperties(np.ones(6) * -2 * np.pi, np.ones(6) * 2 * np.pi)
        elif kind == "chain":
            axes = np.array(spec["axes"], float).T
            pts = np.array(spec["points"], float).T
            n = axes.shape[1]
            pris = spec.get("prismatic") or [False] * n
            screws = np.zeros((6, n))
            for i in range(n):
                if pris[i]:
                    screws[:, i] = np.hstack(([0.0, 0.0, 0.0], axes[:, i]))      # pure translation along the axis
                else:
                    screws[:, i] = np.hstack((axes[:, i], np.cross(pts[:, i], axes[:, i])))
            ee = tm(list(spec["ee"]))
            arm = am.Arm(base, screws.copy(), ee, pts.copy(), axes.copy())
        else:
            raise HarnessError("unknown arm kind %r" % (kind,))
    finally:
        sys.stdout = old
    if spec.get("mins") is not None:
        arm.setJointProperties(np.array(spec["mins"], float), np.array(spec["maxs"], float))
    return arm


_PROTO = {}


def arm_info(spec_key, spec):
    """Cached (n_dof, mins, maxs) for the generator."""
    if spec_key not in _PROTO:
        arm = build_arm(spec)
        _PROTO[spec_key] = (arm.num_dof, np.array(arm.joint_mins, float).copy(), np.array(arm.joint_maxs, float).copy())
    return _PROTO[spec_key]


# --------------------------------------------------------------------------- executor

class _FmrObserver:
    """Read-only observer around arm_model.fmr: records what the unconstrained kernel returned *before* Arm.IK
    wraps it with angleMod (needed to tell apart the known wrap-rounding finding from any other violation)."""

    def __init__(self, real, run):
        self._real = real
        self._run = run

    def __getattr__(self, name):
        return getattr(self._real, name)

    def IKinSpace(self, *a, **k):
        th, ok = self._real.IKinSpace(*a, **k)
        try:
            self._run.raw_free_max = max(self._run.raw_free_max, float(np.max(np.abs(th))))
            self._run.raw_free_theta = np.array(th, float).reshape(-1).copy()
        except Exception:
            pass
        return th, ok


class IKRun:
    sim_seconds = None
    raw_free_max = 0.0
    raw_free_theta = None

    def __init__(self, trace, keep_log=False):
        self.trace = trace
        self.log = EventLog(keep=keep_log)
        self.faults = Counter()
        self.probes = Counter()
        self.states = set()
        self.transitions = set()
        self.n_nontrivial = 0
        self.steps_done = 0
        self.step_draws = []

    # geometry as configured right now (read-only use of the arm's model)
    def geom(self):
        arm = self.arm
        return np.array(arm.screw_list, float), np.array(arm._end_effector_home.gTM(), float)

    def fk(self, theta):
        """The library's own forward kinematics as a pure function (no state change): what "reached" means.

        fmr.FKinSpace treats joint angles below 1e-6 as zero rotation (Modern Robotics' NearZero), so it can
        differ from an exact product of exponentials by 1e-6 x lever arm; that is C05's business, not C07's.
        """
        S, M = self.geom()
        return np.array(_load()["fmr"].FKinSpace(M, S, np.asarray(theta, float).reshape(-1).copy()), float)

    def reach(self):
        """(anchor point on the first joint axis, rigorous upper bound on |p_ee - anchor|)."""
        S, M = self.geom()
        pts = []
        for i in range(S.shape[1]):
            w, v = S[:3, i], S[3:, i]
            n2 = float(w @ w)
            if n2 < 1e-12:
                return None          # prismatic joint: no bound computed
            pts.append(np.cross(w, v) / n2)
        R = float(np.linalg.norm(M[:3, 3] - pts[-1]))
        for a, b in zip(pts, pts[1:]):
            R += float(np.linalg.norm(b - a))
        return pts[0], R

    def coherent(self, tol=1e-7):
        arm = self.arm
        ee = np.array(arm.getEEPos().gTM(), float)
        S, M = self.geom()
        return min(float(np.max(np.abs(ee - T))) for T in fk_variants(S, M, arm._theta, _load()["fmr"].FKinSpace))

    def goal_tm(self, g):
        tm = _load()["tm"]
        k = g["k"]
        if k == "fk":
            T = self.fk(g["theta"])
            if g.get("turns"):
                # the same pose, written by the caller with a rotation vector that is whole turns longer (a yaw accumulated past
                # one turn): tm keeps the vector it is given and its matrix is exp of it -- an ordinary goal object
                w = rot_log(T[:3, :3])
                a = float(np.linalg.norm(w))
                if a > 1e-3:
                    w2 = w * ((a + 2 * math.pi * int(g["turns"])) / a)
                    t = tm([float(T[0, 3]), float(T[1, 3]), float(T[2, 3]), float(w2[0]), float(w2[1]), float(w2[2])])
                    G2 = np.array(t.gTM(), float)
                    if float(np.max(np.abs(G2 - T))) < 1e-9:       # (what tm makes of a long vector is C03's business)
                        self.probes["goal_rotation_vector_longer_than_a_turn"] += 1
                        return t, G2, True
            return tm(T), T, True
        if k == "beyond":
            rb = self.reach()
            anchor, R = rb or (np.zeros(3), 10.0)
            d = np.array(g["dir"], float)
            d = d / max(np.linalg.norm(d), 1e-12)
            p = anchor + d * R * g["f"]
            t = tm([float(p[0]), float(p[1]), float(p[2])] + list(g["rot"]))
            # with a prismatic joint no reach bound is computed: the pose is just "some far pose", no reachability claim
            return t, np.array(t.gTM(), float), (False if rb else None)
        if k == "pose":
            t = tm(list(g["taa"]))
            return t, np.array(t.gTM(), float), None
        if k == "halfturn":
            # the pose of g["theta"] with the tool rolled by exactly half a turn about one of its own (or the space
            # frame's) coordinate axes: started from g["theta"] the error rotation is pi up to rounding, where
            # (trace-1)/2 can round to just above -1 and an acos-based log reads the half turn as ~1e-8 rad
            S, M = self.geom()
            T0 = self.fk(g["theta"]) if g.get("how", "lib") == "lib" else poe(S, M, np.array(g["theta"], float))
            w = np.zeros(6)
            w[int(g["axis"])] = 1.0
            H = exp_twist(w, math.pi)
            T = H @ T0 if g.get("frame") == "space" else T0 @ H
            if g.get("frame") == "space":
                T[:3, 3] = T0[:3, 3]
            return tm(T.copy()), T, None
        if k == "matrix":
            T = np.array(g["T"], float)
            return tm(T.copy()), T, None
        if k == "current":
            # "hold position": the pose the arm currently reports (stale after a tool change without a refresh)
            t = self.arm.getEEPos()
            return t, np.array(t.gTM(), float), None
        raise HarnessError("unknown goal kind")

    # ---- draw scripts for the restart policy -----------------------------------------
    def make_random(self, st):
        if st.get("draws") is not None:
            return SimRandom(explicit=st["draws"], budget=len(st["draws"]) + 1)
        rs = st.get("rs") or {"kinds": ["uniform"], "seed": 0}
        r = stream(rs.get("seed", 0), "restart")
        kinds = rs["kinds"]
        n = self.arm.num_dof
        target = st.get("_target")
        state = {"i": 0}
        faults = self.faults

        def src(a, b):
            i = state["i"]
            state["i"] += 1
            grp, j = divmod(i, n)
            kind = kinds[grp % len(kinds)]
            if j == 0:
                faults["restart_" + kind] += 1
            if a is None or b is None or b <= a:
                return r.random()
            if kind == "uniform":
                return r.random()
            if kind == "edge":
                return r.choice([0.0, ONE_MINUS])
            if kind == "zero":
                return min(max((0.0 - a) / (b - a), 0.0), ONE_MINUS)
            if target is None:
                return r.random()
            t = float(target[j])
            if kind == "near":
                val = t + r.uniform(-0.01, 0.01)
            elif kind == "near_mid":        # ends "almost there" when the iteration budget is small
                rad = (0.05, 0.15, 0.3)[grp % 3]
                val = t + r.uniform(-rad, rad)
            elif kind == "near_wide":
                val = t + r.uniform(-0.5, 0.5)
            elif kind == "far":
                val = a if (t - a) > (b - t) else b
            else:
                raise HarnessError("unknown restart kind %r" % (kind,))
            return min(max((val - a) / (b - a), 0.0), ONE_MINUS)
        return SimRandom(ab_source=src, budget=4000)

    # ---- one step ------------------------------------------------------------------------
    def step(self, st):
        m = _load()
        tm = m["tm"]
        arm = self.arm
        op = st["op"]
        self.log.add("step", self.steps_done, op)
        rnd = self.make_random(st)
        m["am"].random = rnd
        m["am"].fmr = _FmrObserver(m["fmr"], self)
        self.raw_free_max = 0.0
        self.raw_free_theta = None
        exc = None
        ret = None
        info = {}
        try:
            if op in ("IK", "cIK", "IKFree"):
                goal, G, reachable = self.goal_tm(st["goal"])
                start = None if st.get("start") is None else np.array(st["start"], float)
                info = {"G": G, "reachable": reachable, "pre_coherent": self.coherent() <= 1e-7, "goal_obj": goal,
                        "start": None if start is None else start.copy(),
                        "pre_theta": np.array(arm._theta, float).copy(),
                        "mins": np.array(arm.joint_mins, float).copy(), "maxs": np.array(arm.joint_maxs, float).copy(),
                        "pos_tol": float(arm.pos_tolerance), "rot_tol": float(arm.rot_tolerance)}
                model0 = self._model_snapshot()
                if op == "IK":
                    ret = arm.IK(goal, start, st.get("check", True), st.get("level", 6), st.get("max_iters", 30),
                                 st.get("protect", False))
                elif op == "cIK":
                    ret = arm.constrainedIK(goal, start, st.get("check", True), st.get("level", 6), st.get("max_iters", 30))
                else:
                    if start is None:
                        start = np.array(arm._theta, float).copy()
                        info["start"] = start.copy()
                    ret = arm.IKFree(goal, start, list(st["inds"]))
                info["model_changed"] = self._model_diff(model0, self._model_snapshot())
            elif op == "FK":
                arm.FK(np.array(st["theta"], float), bool(st.get("protect", False)))
            elif op == "move":
                info["ee0"] = np.array(arm.getEEPos().gTM(), float).copy()
                if st.get("stationary"):
                    # move(stationary=True) keeps the tool in place by an internal IK call.  move() returns nothing, so that
                    # call is observed at the method seam (instance-level wrappers, outermost call only) and judged below like
                    # any other IK call: what it *reported* decides what the arm owes afterwards.
                    info["inner"] = inner = []
                    depth = [0]

                    def _wrap(name):
                        orig = getattr(arm, name)

                        def w(*a, **k):
                            g = a[0] if a else k.get("goal_position")
                            rec = None
                            if depth[0] == 0 and g is not None and hasattr(g, "gTM"):
                                rec = {"op": "IK" if name == "IK" else "cIK", "G": np.array(g.gTM(), float).copy(), "goal_obj": g,
                                       "args": (a, k), "pre_coherent": self.coherent() <= 1e-7,
                                       "pre_theta": np.array(arm._theta, float).copy(),
                                       "mins": np.array(arm.joint_mins, float).copy(), "maxs": np.array(arm.joint_maxs, float).copy(),
                                       "pos_tol": float(arm.pos_tolerance), "rot_tol": float(arm.rot_tolerance)}
                            depth[0] += 1
                            try:
                                r = orig(*a, **k)
                            finally:
                                depth[0] -= 1
                            if rec is not None:
                                rec["ret"] = r
                                inner.append(rec)
                            return r
                        setattr(arm, name, w)
                    _wrap("IK")
                    _wrap("constrainedIK")
                    try:
                        arm.move(tm(list(st["base"])), True)
                    finally:
                        for name in ("IK", "constrainedIK"):
                            try:
                                delattr(arm, name)
                            except AttributeError:
                                pass
                else:
                    arm.move(tm(list(st["base"])), False)
            elif op == "home":
                cur = arm.getEEPos()
                arm.setArbitraryHome(cur @ tm(list(st["rel"])))
            elif op == "restoreEE":
                arm.restoreOriginalEE()
            elif op == "limits":
                how = st.get("how", "setter")
                if how == "setter":
                    arm.setJointProperties(np.array(st["mins"], float), np.array(st["maxs"], float))
                elif how == "assign":
                    # "Joint constraints are set through the joint_maxs and joint_mins properties" (constrainedIK docstring)
                    arm.joint_mins = np.array(st["mins"], float)
                    arm.joint_maxs = np.array(st["maxs"], float)
                else:
                    arm.joint_mins[:] = np.array(st["mins"], float)      # edited in place: same array objects
                    arm.joint_maxs[:] = np.array(st["maxs"], float)
                self.probes["limits_changed_" + how] += 1
            elif op == "tol":
                arm.pos_tolerance = float(st["pos"])
                arm.rot_tolerance = float(st["rot"])
            else:
                raise HarnessError("unknown op %r" % (op,))
        except (HarnessError, Inconclusive):
            raise
        except Exception as e:   # noqa: the library raised
            exc = e
        finally:
            m["am"].random = m["real_random"]
            m["am"].fmr = m["fmr"]
        draws = list(rnd.consumed)
        self.step_draws.append(draws)
        self.steps_done += 1
        if op in ("IK", "cIK", "IKFree"):
            self._oracle(st, ret, exc, info, len(draws))
            self._alias_check(st, ret, exc)
            self._goal_alias_check(st, exc, info)
        else:
            if exc is not None:
                self.probes["exc_%s_%s" % (op, type(exc).__name__)] += 1
            if op == "move" and st.get("stationary"):
                self.probes["move_stationary_internal_ik"] += 1
                if draws:
                    self.probes["move_stationary_used_restarts"] += 1
                # move(stationary=True) keeps the tool in place by an internal limit-respecting IK with restarts: whether
                # that solve succeeded (state = solution) or failed (reset), the arm must be coherent afterwards
                if exc is None:
                    dev = self.coherent()
                    if dev > 1e-7:
                        raise Violation("K-fail-coherent", "move(stationary=True): the internal IK left the arm incoherent: reported "
                                        "tool pose differs from FK(stored joints) by %.3e" % dev,
                                        {"op": "move", "path": "constrained", "check": True})
                    # Which coherent configuration follows an internal solve that *reported failure* is the library's choice
                    # (this tree resets to the zero vector clamped into the limits; restoring the previous joints or parking
                    # mid-range are equally coherent -- review 2, A3/A4).  What the internal solve *reported* is judged like any
                    # other IK call: a reported success must have reached the pose it was given, inside the limits, and be the
                    # arm's state.
                    S__, M__ = self.geom()
                    stored = np.array(arm._theta, float).reshape(-1)
                    kept = False
                    for T in fk_variants(S__, M__, stored, _load()["fmr"].FKinSpace):
                        a_, l_ = pose_errors(T, info["ee0"])
                        if a_ <= float(arm.rot_tolerance) * (1 + 1e-6) + ANG_BLIND and min(l_) <= float(arm.pos_tolerance) * (1 + 1e-6) + 1e-9:
                            kept = True
                            break
                    self.probes["move_stationary_kept_tool_pose" if kept else "move_stationary_gave_up_coherently"] += 1
                    for rec in info.get("inner", [])[-1:]:
                        a, k = rec["args"]
                        names = ["goal_position", "theta_init", "check", "level", "max_iters", "protect"]
                        kw = dict(zip(names, a))
                        kw.update(k)
                        st_in = {"op": rec["op"], "goal": {"k": "matrix", "T": rec["G"].tolist()}, "check": bool(kw.get("check", True)),
                                 "level": kw.get("level", 6), "max_iters": kw.get("max_iters", 30),
                                 "protect": bool(kw.get("protect", False)) if rec["op"] == "IK" else False}
                        th0 = kw.get("theta_init")
                        info_in = dict(rec, reachable=None, start=None if th0 is None else np.array(th0, float).reshape(-1).copy(),
                                       model_changed=None)
                        self.probes["move_stationary_internal_ik_judged"] += 1
                        try:
                            self._oracle(st_in, rec["ret"], None, info_in, len(draws))
                        except Violation as v:
                            raise Violation(v.clause, "inside move(stationary=True): " + v.message, v.detail)
        try:
            th_ = np.asarray(arm._theta, float).reshape(-1)
            inl = bool(np.all(th_ >= np.asarray(arm.joint_mins, float) - 1e-12) and np.all(th_ <= np.asarray(arm.joint_maxs, float) + 1e-12))
            spec = self.trace["config"]["arm"]
            self.states.add(digest_int((spec.get("file", spec["kind"]), arm.num_dof, bool(spec.get("base")), self.coherent() <= 1e-7, inl,
                                        self._moved, float(arm.pos_tolerance) > float(arm.rot_tolerance), op)))
        except Exception:
            pass
        self.log.add("state", tuple(float(x) for x in np.asarray(arm._theta, float).reshape(-1)),
                     tuple(float(x) for x in np.asarray(arm.getEEPos().gTAA(), float).reshape(-1)),
                     type(exc).__name__ if exc else None, tuple(draws))

    # ---- oracle ----------------------------------------------------------------------------------
    def _oracle(self, st, ret, exc, info, n_draws):
        arm = self.arm
        op = st["op"]
        P = self.probes
        path = "ikfree" if op == "IKFree" else ("free" if (op == "IK" and st.get("protect")) else "constrained")
        sig = {"op": op, "path": path, "arm": self.trace["config"]["arm"].get("file", self.trace["config"]["arm"]["kind"])}
        if exc is not None:
            # The statement speaks about calls that *report* success or failure; a call that raises reports
            # neither, so it is recorded, not alarmed -- except under the local-convergence clause, where
            # "it succeeds" is stated and a raise is not a success.
            P["exc_%s_%s" % (op, type(exc).__name__)] += 1
            self.log.add("ik-raised", op, type(exc).__name__)
            if st.get("local") and op != "IKFree":
                ok_pre = self._local_applicable(st, info)
                if ok_pre:
                    # (a library that reports a total failure by raising fails for the same numerical reasons as one that
                    # returns False: the explanations of the two K-local known findings are computed here too -- review 2, A2')
                    expl = self._local_explanations(st, info, path, info["G"], info["pos_tol"], info["rot_tol"])
                    raise Violation("K-local", "%s (%s path) started %.4f rad from an in-limit, non-singular solution and "
                                    "raised %s: %s" % (op, path, ok_pre[0], type(exc).__name__, exc),
                                    dict(sig, exception=type(exc).__name__, max_iters=st.get("max_iters", 30), **expl))
            # A raise reports nothing -- but the arm must not be left *claiming* something either: if its reported tool pose
            # was the pose of its stored joints before the call, it still is after a call that gave up by raising (a raise
            # between "remember the goal as the reported pose" and "commit the joints" leaves it claiming an unreached pose,
            # and every later check=False failure then inherits an incoherent arm it cannot be blamed for).
            if info.get("pre_coherent"):
                dev = self.coherent()
                if dev > 1e-7:
                    raise Violation("K-fail-coherent", "%s (%s path) raised %s and left the arm incoherent: reported tool pose differs "
                                    "from FK(stored joints) by %.3e" % (op, path, type(exc).__name__, dev),
                                    dict(sig, exception=type(exc).__name__, check=st.get("check", True)))
                P["raise_left_arm_coherent"] += 1
            return
        try:
            theta, success = ret
            theta = np.array(theta, float).reshape(-1)
            success = bool(success)
        except Exception:
            raise Violation("K-return", "%s returned %r instead of (theta, success)" % (op, ret), sig)
        if info.get("model_changed"):
            raise Violation("K-state", "%s changed the arm's %s: the model that forward kinematics, the limits and the tolerances are "
                            "read from is not the one the caller configured any more" % (op, info["model_changed"]),
                            dict(sig, model_changed=info["model_changed"]))
        n = arm.num_dof
        if theta.shape[0] != n or not np.all(np.isfinite(theta)):
            if success:
                raise Violation("K-reach-pos", "%s reported success with joint vector %r" % (op, theta), sig)
        G = info["G"]
        rot_tol, pos_tol = info["rot_tol"], info["pos_tol"]
        restarts = n_draws // max(n, 1)
        check = st.get("check", True) if op != "IKFree" else False
        self.log.add("ik", op, path, success, tuple(float(x) for x in theta), n_draws)
        if success:
            # Two readings of "forward kinematics of the returned vector": the library's FKinSpace (which treats joint
            # angles below 1e-6 rad as no rotation -- Modern Robotics' NearZero) and an exact product of exponentials.
            # They differ by up to 1e-6 x lever arm; a solution that wraps 2*pi+3e-7 to 3e-7 is right under the exact
            # reading and wrong under the library's, a solution with a 1e-8 joint angle the other way round.  Only a
            # claim that is wrong under BOTH readings is a violation (the discrepancy itself is C05's business).
            S_, M_ = self.geom()
            ang = lin = None
            blind_reading = None
            for vi, T in enumerate(fk_variants(S_, M_, theta, _load()["fmr"].FKinSpace)):
                a_, l_ = pose_errors(T, G)
                ok_ = a_ <= rot_tol * (1 + 1e-6) + 1e-12 and min(l_) <= pos_tol * (1 + 1e-6) + 1e-12
                if ang is None or ok_:
                    ang, lin = a_, l_       # if no reading reaches the goal the library's own (the first) is reported ...
                if not ok_ and blind_reading is None and a_ <= ANG_BLIND and min(l_) <= pos_tol * (1 + 1e-6) + 1e-12:
                    blind_reading = (a_, l_)    # ... unless one reading misses only by a rotation inside the log's blind zone
                if ok_:
                    if vi == 1:
                        P["reached_only_under_exact_fk"] += 1
                    elif vi > 1:
                        P["reached_only_under_mixed_nearzero_reading"] += 1
                    break
            if blind_reading is not None and not (ang <= rot_tol * (1 + 1e-6) + 1e-12 and min(lin) <= pos_tol * (1 + 1e-6) + 1e-12):
                ang, lin = blind_reading
            # the library's own reading of the angular error (its MatrixLog6 cannot see rotations below ~1.5e-8 rad): a
            # success that its own measure confirms but an exact log does not is the known blind-zone finding, a success
            # that even its own measure refutes is something else
            fm = _load()["fmr"]
            try:
                # (on the unconstrained path the kernel judged its own, not yet wrapped, output)
                th_judged = self.raw_free_theta if (path == "free" and self.raw_free_theta is not None
                                                    and len(self.raw_free_theta) == len(theta)) else theta
                E_lib = np.array(fm.TransInv(self.fk(th_judged)) @ G)
                lib_w = fm.se3ToVec(fm.MatrixLog6(E_lib))[0:3]
                lib_ang = float(np.linalg.norm(lib_w))
                # the half-turn finding is the *general* branch of MatrixLog3 met with (trace-1)/2 a rounding error above -1;
                # at or below -1 the library's dedicated pi branch answers, and a wrong answer there is something else
                lib_acos_above_m1 = bool((float(np.trace(E_lib[:3, :3])) - 1.0) / 2.0 > -1.0)
            except Exception:
                lib_ang = float("nan")
                lib_acos_above_m1 = False
            rb = self.reach()
            excess = max(ang - rot_tol, (min(lin) - pos_tol) / max(rb[1] if rb else 10.0, 1.0), 0.0)
            detail = dict(sig, rot_tol=rot_tol, pos_tol=pos_tol, ang=ang, lin=min(lin), restarts=restarts,
                          reachable=info["reachable"], raw_free_max=self.raw_free_max,
                          prismatic_wrapped=self._prismatic_wrapped(path),
                          lib_ang_ok=bool(lib_ang <= rot_tol * (1 + 1e-6) + 1e-12), ang_from_pi=abs(ang - math.pi),
                          lib_acos_above_m1=lib_acos_above_m1,
                          # (K-reach-rot is raised before the position is judged: a tolerated rotation finding must not carry
                          # a position miss with it; the slack is the blind zone's own lever effect)
                          pos_ok=bool(min(lin) <= pos_tol * (1 + 1e-6) + 3e-7 * max(rb[1] if rb else 10.0, 1.0)),
                          wrap_explains=bool(excess <= self.raw_free_max * 4e-15))
            if self.raw_free_max >= 1e4:
                P["free_solver_returned_huge_angles"] += 1
            if info["reachable"] is False:
                P["unreachable_goal_reported_success"] += 1
            if ang > rot_tol * (1 + 1e-6) + 1e-12:
                raise Violation("K-reach-rot", "%s (%s path) reported success but the orientation error is %.3e rad > "
                                "rot_tolerance %.3e (pos_tolerance %.3e, position error %.3e)%s%s" % (
                                    op, path, ang, rot_tol, pos_tol, min(lin),
                                    "; goal is beyond reach" if info["reachable"] is False else "",
                                    "; inside the blind zone of the acos-based MatrixLog3" if ang <= ANG_BLIND else ""), detail)
            if min(lin) > pos_tol * (1 + 1e-6) + 1e-12:
                raise Violation("K-reach-pos", "%s (%s path) reported success but the position error is %.3e "
                                "(readings |v_s|,|v_b|,|dp| = %s) > pos_tolerance %.3e%s" % (
                                    op, path, min(lin), ["%.3e" % x for x in lin], pos_tol,
                                    "; goal is beyond reach" if info["reachable"] is False else ""), detail)
            if path == "constrained":
                lo, hi = info["mins"], info["maxs"]
                if np.any(theta < lo - 1e-12) or np.any(theta > hi + 1e-12):
                    j = int(np.argmax(np.maximum(lo - theta, theta - hi)))
                    raise Violation("K-limits", "%s reported success with joint %d = %.6f outside [%.6f, %.6f]" % (
                        op, j, theta[j], lo[j], hi[j]), detail)
            stored = np.array(arm._theta, float).reshape(-1)
            if stored.shape[0] != n or ang_diff(stored, theta) > 1e-9:
                raise Violation("K-state", "%s reported success with theta %r but the arm stores %r" % (
                    op, np.round(theta, 6).tolist(), np.round(stored, 6).tolist()), detail)
            ee = np.array(arm.getEEPos().gTM(), float)
            a2 = l2 = None
            state_ok = False
            for T in fk_variants(S_, M_, stored, _load()["fmr"].FKinSpace):
                a2, l2 = pose_errors(T, ee)
                if a2 <= rot_tol * (1 + 1e-6) + ANG_BLIND and min(l2) <= pos_tol * (1 + 1e-6) + 1e-9:
                    state_ok = True
                    break
            if not state_ok:
                raise Violation("K-state", "%s reported success; the reported tool pose differs from FK(stored joints) by "
                                "%.3e rad / %.3e" % (op, a2, min(l2)), detail)
            if restarts == 0:
                P["success_first_attempt"] += 1
            else:
                P["success_on_restart_%d" % min(restarts, 6)] += 1
                P["success_on_restart"] += 1
        else:
            # The limit-respecting path with restarts resets the arm (FK of the zero vector) and IKFree ends with an FK of
            # what it returns: both must leave a coherent arm whatever it was before.  The two paths that leave the
            # state untouched (check=False, unconstrained) can only be blamed if the arm was coherent when they started.
            touches_state = (path == "constrained" and check) or path == "ikfree"
            if info["pre_coherent"] or touches_state:
                dev = self.coherent()
                if dev > 1e-7:
                    stored = np.array(arm._theta, float).reshape(-1)
                    raise Violation("K-fail-coherent", "%s (%s path, check=%s) reported failure and left the arm incoherent: "
                                    "reported tool pose differs from FK(stored joints %s) by %.3e" % (
                                        op, path, check, np.round(stored, 4).tolist(), dev), dict(sig, check=check))
            else:
                P["failure_on_already_incoherent_arm"] += 1
            if check and op != "IKFree":
                P["all_restarts_failed"] += 1 if restarts else 0
                P["failure_check_true"] += 1
            else:
                P["failure_check_false"] += 1
            if info["reachable"] is False:
                P["unreachable_goal_reported_failure"] += 1
        # local convergence
        g = st["goal"]
        loc = st.get("local")
        if loc and op != "IKFree":
            ok_pre = self._local_applicable(st, info)
            if ok_pre:
                P["local_clause_applicable"] += 1
                if not success:
                    expl = self._local_explanations(st, info, path, G, pos_tol, rot_tol)
                    raise Violation("K-local", "%s (%s path) started %.4f rad (2-norm) from an in-limit, non-singular solution "
                                    "(sigma_min %.3f, margin %.3f rad) and reported failure (max_iters=%d, tolerances %.1e/%.1e)" % (
                                        op, path, ok_pre[0], ok_pre[1], ok_pre[2], st.get("max_iters", 30), pos_tol, rot_tol),
                                    dict(sig, max_iters=st.get("max_iters", 30), **expl))
        # reach probes / classes
        if pos_tol > rot_tol:
            P["tol_pos_gt_rot"] += 1
        elif rot_tol > pos_tol:
            P["tol_rot_gt_pos"] += 1
        P["path_" + path] += 1
        if g["k"] == "beyond":
            P["goal_beyond_reach"] += 1
        if self.trace["config"]["arm"].get("prismatic") and any(self.trace["config"]["arm"]["prismatic"]):
            P["arm_with_prismatic_joint"] += 1
        if g["k"] == "halfturn" and st.get("start") is not None:
            P["goal_half_turn_from_start"] += 1
        if g["k"] == "current":
            P["goal_is_current_reported_pose"] += 1
            if not info["pre_coherent"]:
                P["goal_is_stale_reported_pose"] += 1
        if g.get("boundary"):
            P["goal_on_limit_boundary"] += 1
        if self._moved:
            P["solve_after_move_or_retool"] += 1
        if st.get("start") is None:
            P["start_from_current_state"] += 1
        self.n_nontrivial += 1
        self.transitions.add(digest_int((sig["arm"], path, success, min(restarts, 7), check,
                                         (st.get("rs") or {}).get("kinds", ["explicit"])[0], pos_tol > rot_tol, g["k"])))

    def _alias_check(self, st, ret, exc):
        """The caller owns what IK returned.  Editing it in place (the way-point idiom `theta[1] += 0.3`) must not move
        the arm: otherwise "the arm's state is that solution" stops holding between two library calls, and a later
        failed solve that leaves the state untouched leaves an incoherent arm."""
        if exc is not None:
            return
        try:
            theta_obj, success = ret
        except Exception:
            return
        if not isinstance(theta_obj, np.ndarray) or theta_obj.size == 0 or not np.issubdtype(theta_obj.dtype, np.floating):
            return
        arm = self.arm
        before = np.array(arm._theta, float).reshape(-1).copy()
        dev0 = self.coherent()
        try:
            theta_obj += 0.37
        except Exception:
            return
        after = np.array(arm._theta, float).reshape(-1)
        if after.shape != before.shape or float(np.max(np.abs(after - before))) > 1e-12:
            raise Violation("K-state", "%s returned the arm's own joint-state array: after the caller edited the returned vector "
                            "in place the arm stores %s instead of %s (reported tool pose now off by %.3e)" % (
                                st["op"], np.round(after, 4).tolist(), np.round(before, 4).tolist(), self.coherent()),
                            {"op": st["op"], "path": "free" if st.get("protect") else ("ikfree" if st["op"] == "IKFree" else "constrained"),
                             "alias": True, "success": bool(success)})
        self.probes["returned_vector_edited_by_caller"] += 1

    def _model_snapshot(self):
        """What the oracle reads from the arm as ground truth (geometry, limits, tolerances): solving IK must not touch it."""
        arm = self.arm
        return {"screw list": np.array(arm.screw_list, float).copy(),
                "home tool pose": np.array(arm._end_effector_home.gTM(), float).copy(),
                "base pose": np.array(arm._base_pos_global.gTM(), float).copy(),
                "joint minima": np.array(arm.joint_mins, float).copy(), "joint maxima": np.array(arm.joint_maxs, float).copy(),
                "tolerances": np.array([float(arm.pos_tolerance), float(arm.rot_tolerance)])}

    @staticmethod
    def _model_diff(a, b):
        for k in a:
            if a[k].shape != b[k].shape or float(np.max(np.abs(a[k] - b[k]))) > 0.0:
                return k
        return None

    def _prismatic_wrapped(self, path):
        """Unconstrained path only: did the kernel return a prismatic joint beyond 2*pi of travel (which Arm.IK's
        angleMod then reduces as if it were an angle)?"""
        mask = self.trace["config"]["arm"].get("prismatic")
        raw = self.raw_free_theta
        if path != "free" or not mask or raw is None or len(raw) != len(mask):
            return False
        return bool(any(m_ and abs(float(raw[j])) > 2 * math.pi for j, m_ in enumerate(mask)))

    def _goal_alias_check(self, st, exc, info):
        """The caller owns its goal object as well: moving it afterwards (re-using one tm for the next way-point) must
        not move the arm's reported tool pose."""
        goal = info.get("goal_obj")
        if exc is not None or goal is None or st["goal"]["k"] == "current":
            return
        arm = self.arm
        before = np.array(arm.getEEPos().gTM(), float).copy()
        try:
            goal.TAA[0, 0] += 0.731
            goal.TAAtoTM()
        except Exception:
            return
        after = np.array(arm.getEEPos().gTM(), float)
        if float(np.max(np.abs(after - before))) > 1e-12:
            raise Violation("K-state", "%s keeps the caller's goal object as the arm's reported tool pose: after the caller moved "
                            "its goal by 0.731 the arm reports a pose %.3e away from the pose of its stored joints" % (
                                st["op"], self.coherent()),
                            {"op": st["op"], "path": "free" if st.get("protect") else ("ikfree" if st["op"] == "IKFree" else "constrained"),
                             "alias": "goal"})
        self.probes["goal_object_moved_by_caller"] += 1

    def _local_explanations(self, st, info, path, G, pos_tol, rot_tol):
        """Where did the failed near-start solve stop?  Two findings of the unchanged library explain a stop a hair's breadth
        from the goal and nothing else: the log's blind zone (rotation invisible, position error = lever x that rotation) and the
        NearZero band of FKinSpace around a solution joint at zero (the pose jumps by up to 1e-6 rad x lever as the iterate
        crosses the band, Newton oscillates at a few 1e-6).  The FIRST attempt is judged (the kernels are pure)."""
        blind = nearzero = False
        try:
            fm_ = _load()["fmr"]
            S__, M__ = self.geom()
            if path == "free":
                th1, _ = fm_.IKinSpace(S__, M__, np.array(G), info["start"].copy(), rot_tol, pos_tol,
                                       max_iters=int(st.get("max_iters", 30)))
            else:
                th1, _ = fm_.IKinSpaceConstrained(S__.copy(), M__.copy(), np.array(G), info["start"].copy(), pos_tol, rot_tol,
                                                  info["mins"], info["maxs"], int(st.get("max_iters", 30)))
            a_f, l_f = pose_errors(self.fk(th1), G)
            rb = self.reach()
            lever = max(rb[1] if rb else 10.0, 1.0)
            blind = bool(a_f <= 1e-7 and min(l_f) <= 3e-7 * lever)
            ts_ = np.array(st["goal"]["theta"], float)
            tsw = (ts_ + math.pi) % (2 * math.pi) - math.pi
            # the unchanged library fails this way only when a tolerance is inside the jump itself (1e-6 rad, 1e-6 x lever)
            # and then stops within a few 1e-6 of the goal (4e-6 measured): both are part of the identity of the finding
            nearzero = bool(np.any(np.abs(tsw) < 1e-6) and (rot_tol <= 2e-6 or pos_tol <= 2e-6 * lever)
                            and a_f <= 5e-6 and min(l_f) <= 5e-6 * lever)
        except Exception:
            pass
        return {"min_tol": min(pos_tol, rot_tol), "blind_explains": blind, "nearzero_explains": nearzero}

    def _local_applicable(self, st, info):
        g = st["goal"]
        if g["k"] != "fk" or info["start"] is None:
            return None
        ts = np.array(g["theta"], float)
        d = float(np.linalg.norm(info["start"] - ts))
        if d > 0.02:
            return None
        margin = float(min(np.min(ts - info["mins"]), np.min(info["maxs"] - ts)))
        if margin < 0.15:
            return None
        if min(info["pos_tol"], info["rot_tol"]) < 1e-8 or st.get("max_iters", 30) < 10:
            return None
        S, _ = self.geom()
        sv = np.linalg.svd(space_jacobian(S, ts), compute_uv=False)
        smin = float(sv[min(len(sv), S.shape[1]) - 1]) if len(sv) else 0.0
        if smin < 0.05:
            return None
        return d, smin, margin

    def run(self):
        old = sys.stdout
        sys.stdout = _Null()
        try:
            self.arm = build_arm(self.trace["config"]["arm"])
            self._moved = False
            for st in self.trace["steps"]:
                if st["op"] in ("move", "home", "restoreEE", "limits"):
                    self._moved = True
                self.step(st)
        finally:
            sys.stdout = old
            _load()["am"].random = _load()["real_random"]
            _load()["am"].fmr = _load()["fmr"]
        return self


def execute(trace, keep_log=False, collect=True):
    run = IKRun(trace, keep_log=keep_log)
    try:
        run.run()
    except Violation as v:
        return run, v
    return run, None


# --------------------------------------------------------------------------- generator

def _unit(r):
    v = [r.gauss(0, 1) for _ in range(3)]
    n = math.sqrt(sum(x * x for x in v)) or 1.0
    return [x / n for x in v]


def _chain(r):
    n = pick_weighted(r, [(1, 0.5), (2, 1.0), (3, 1.5), (4, 1.5), (5, 1.5), (6, 3.0), (7, 1.5)])
    axes, pts = [], []
    p = [0.0, 0.0, 0.0]
    prin = [[1, 0, 0], [0, 1, 0], [0, 0, 1], [-1, 0, 0], [0, -1, 0], [0, 0, -1]]
    for i in range(n):
        axes.append([float(x) for x in (r.choice(prin) if r.random() < 0.7 else _unit(r))])
        pts.append([round(x, 4) for x in p])
        d = r.choice(prin) if r.random() < 0.7 else _unit(r)
        L = r.choice([0.0, r.uniform(0.1, 2.0), r.uniform(0.1, 2.0)])
        p = [p[j] + L * d[j] for j in range(3)]
    d = _unit(r)
    L = r.uniform(0.05, 1.0)
    ee = [round(p[j] + L * d[j], 4) for j in range(3)] + ([0.0, 0.0, 0.0] if r.random() < 0.6 else [round(r.uniform(-1, 1), 3) for _ in range(3)])
    spec = {"kind": "chain", "axes": axes, "points": pts, "ee": ee}
    # Prismatic joints: Arm.FK / Arm.IK(protect=True) wrap every joint value with angleMod, which turns a prismatic travel
    # of 6.39 m into 0.10 m -- a forward-kinematics state defect (C05's business; DESIGN.md section 10).  Prismatic joints
    # are therefore generated only with a travel of +-4 (< 2*pi, so the wrap cannot fire on the limit-respecting path);
    # on the unconstrained path a solve may still end on a branch with more than 2*pi of travel: that is the known
    # finding C07-prismatic-wrap, identified by the kernel's own output (prismatic joint beyond 2*pi before the wrap).
    if r.random() < 0.2:
        mask = [r.random() < 0.35 for _ in range(n)]
        if not any(mask):
            mask[r.randrange(n)] = True
        spec["prismatic"] = mask
    return spec


def gen_trace(seed):
    r = stream(seed, "cfg")
    ro = stream(seed, "ops")
    kind = pick_weighted(r, [("urdf", 5.0), ("6R", 2.0), ("chain", 3.0)])
    if kind == "urdf":
        spec = {"kind": "urdf", "file": r.choice(URDFS)}
    elif kind == "6R":
        spec = {"kind": "6R"}
    else:
        spec = _chain(r)
    if r.random() < 0.35:
        spec["base"] = [round(r.uniform(-3, 3), 3) for _ in range(3)] + [round(r.uniform(-1.5, 1.5), 3) for _ in range(3)]
    if kind == "chain":
        n = len(spec["axes"])
        lim = r.choice(["pi", "wide", "narrow", "asym", "asym_wide"])
        if lim == "wide":
            spec["mins"], spec["maxs"] = [-2 * math.pi] * n, [2 * math.pi] * n
        elif lim == "narrow":
            spec["mins"], spec["maxs"] = [-1.0] * n, [1.2] * n
        elif lim == "asym_wide":
            # a full turn (or more) of travel, not centred on zero: e.g. [-pi/2, 3pi/2], [0, 2pi]
            spec["mins"] = [round(-r.uniform(0.0, 2.5), 3) for _ in range(n)]
            spec["maxs"] = [round(spec["mins"][j] + r.uniform(2 * math.pi, 2 * math.pi + 2.0), 3) for j in range(n)]
        elif lim == "asym":
            spec["mins"] = [round(-r.uniform(0.4, 3.0), 3) for _ in range(n)]
            spec["maxs"] = [round(r.uniform(0.4, 3.0), 3) for _ in range(n)]
    if kind == "chain":
        n = len(spec["axes"])
        if spec.get("prismatic"):
            lo = list(spec.get("mins") or [-math.pi] * n)
            hi = list(spec.get("maxs") or [math.pi] * n)
            for j_ in range(n):
                if spec["prismatic"][j_]:
                    lo[j_], hi[j_] = -4.0, 4.0        # a linear axis with +-4 of travel
            spec["mins"], spec["maxs"] = lo, hi
        mins = np.array(spec.get("mins") or [-math.pi] * n, float)
        maxs = np.array(spec.get("maxs") or [math.pi] * n, float)
    else:
        n, mins, maxs = arm_info(spec.get("file", "6R"), {k: v for k, v in spec.items() if k != "base"})
        mins, maxs = mins.copy(), maxs.copy()
    # swarm
    tol_mode = pick_weighted(r, [("default", 2.0), ("independent", 4.0), ("pos_loose", 1.5), ("rot_loose", 1.5), ("loose", 2.0),
                                 ("fine", 0.8)])
    p_protect = r.choice([0.0, 0.3, 0.3, 1.0])
    iters_mode = pick_weighted(r, [("tiny", 1.5), ("small", 2.0), ("mid", 2.0), ("generous", 3.0)])
    restart_mode = pick_weighted(r, [("natural", 3.0), ("scripted", 4.0), ("off", 1.5)])
    has_prismatic = bool(spec.get("prismatic"))
    # a correlated corner the independent knobs meet too rarely: coarse or unequal tolerances, a small iteration
    # budget and restarts that end "almost there" before one succeeds (near miss, then success)
    campaign = pick_weighted(r, [("none", 7.0), ("nearmiss", 1.0), ("failstreak", 0.6)])
    if campaign == "nearmiss":
        tol_mode, iters_mode, restart_mode, p_protect = "loose", r.choice(["tiny", "tiny", "tiny", "small", "small"]), "scripted", 0.0
    if campaign == "failstreak":
        # a streak of failed check=False solves (counters such as fail_count grow), then borderline solves
        tol_mode, iters_mode, restart_mode = "loose", r.choice(["tiny", "small"]), "scripted"
    length = pick_weighted(ro, [(1, 2.0), (2, 2.0), (3, 2.0), (ro.randint(4, 6), 2.0), (ro.randint(7, 10), 1.0)])
    steps = []

    def tol_step():
        if tol_mode == "default":
            return None
        if tol_mode == "independent":
            return {"op": "tol", "pos": float("%.3g" % log_uniform(ro, 1e-9, 1e-2)), "rot": float("%.3g" % log_uniform(ro, 1e-9, 1e-2))}
        if tol_mode == "fine":      # around the scale of the library's own cut-offs (NearZero 1e-6, eps 1e-6 .. default 1e-5)
            return {"op": "tol", "pos": float("%.3g" % log_uniform(ro, 1e-6, 3e-5)), "rot": float("%.3g" % log_uniform(ro, 1e-6, 3e-5))}
        if tol_mode == "loose":     # coarse tolerances: attempts that end "almost there" are common
            return {"op": "tol", "pos": float("%.3g" % log_uniform(ro, 1e-3, 1e-1)), "rot": float("%.3g" % log_uniform(ro, 1e-3, 1e-1))}
        if tol_mode == "pos_loose":
            return {"op": "tol", "pos": float("%.3g" % log_uniform(ro, 1e-4, 1e-2)), "rot": float("%.3g" % log_uniform(ro, 1e-9, 1e-6))}
        return {"op": "tol", "pos": float("%.3g" % log_uniform(ro, 1e-9, 1e-6)), "rot": float("%.3g" % log_uniform(ro, 1e-4, 1e-2))}

    t = tol_step()
    if t:
        steps.append(t)

    def in_limits(frac=1.0, margin=0.0):
        out = []
        for j in range(n):
            lo, hi = mins[j] + margin, maxs[j] - margin
            if hi <= lo:
                lo = hi = (mins[j] + maxs[j]) / 2
            c, h = (lo + hi) / 2, (hi - lo) / 2 * frac
            out.append(ro.uniform(c - h, c + h))
        return out

    def goal():
        k = pick_weighted(ro, [("fk", 6.0), ("boundary", 1.5), ("beyond", 1.5), ("pose", 0.7), ("current", 1.0), ("halfturn", 0.4)])
        if k == "current":
            return {"k": "current"}, None
        if k == "halfturn":
            th = in_limits(ro.choice([0.3, 1.0]))
            if ro.random() < 0.5:
                th = [min(max(round(x / (math.pi / 2)) * (math.pi / 2), mins[j]), maxs[j]) for j, x in enumerate(th)]
            return {"k": "halfturn", "theta": [float(x) for x in th], "axis": ro.randrange(3),
                    "frame": ro.choice(["tool", "tool", "space"]), "how": ro.choice(["lib", "poe"])}, None
        if k == "fk":
            th = in_limits(ro.choice([0.3, 0.6, 1.0]), margin=ro.choice([0.0, 0.16]))
            if ro.random() < 0.1:
                # joint angles on multiples of pi/2: aligned axes, singular configurations, tool rotations near pi
                th = [min(max(round(x / (math.pi / 2)) * (math.pi / 2), mins[j]), maxs[j]) for j, x in enumerate(th)]
            elif ro.random() < 0.15:
                # one or two joints at exactly zero: the solution sits in the middle of FKinSpace's NearZero band (|angle| <
                # 1e-6 is treated as no rotation), where the pose the solver evaluates is discontinuous
                for j in ro.sample(range(n), min(n, ro.randint(1, 2))):
                    if mins[j] <= 0.0 <= maxs[j]:
                        th[j] = 0.0
            gd = {"k": "fk", "theta": [round(x, 6) for x in th]}
            if ro.random() < 0.06:
                gd["turns"] = ro.choice([1, 1, -1, 2])
            return gd, th
        if k == "boundary":
            th = in_limits(1.0)
            for j in range(n):
                if ro.random() < 0.4:
                    th[j] = mins[j] if ro.random() < 0.5 else maxs[j]
            return {"k": "fk", "theta": [float(x) for x in th], "boundary": True}, th
        if k == "beyond":
            return {"k": "beyond", "dir": [round(x, 4) for x in _unit(ro)], "f": ro.choice([1.02, 1.2, 2.0, 10.0]),
                    "rot": [round(ro.uniform(-1, 1), 3) for _ in range(3)]}, None
        return {"k": "pose", "taa": [round(ro.uniform(-2, 2), 3) for _ in range(3)] + [round(ro.uniform(-2, 2), 3) for _ in range(3)]}, None

    def ik_step():
        g, th = goal()
        st = {"op": "IK" if ro.random() < 0.7 else "cIK", "goal": g}
        if st["op"] == "IK" and ro.random() < p_protect:
            st["protect"] = True
        sk = pick_weighted(ro, [("none", 2.0), ("near", 3.0), ("mid", 2.0), ("far", 3.0), ("outside", 0.4)])
        if g["k"] == "halfturn" and ro.random() < 0.8:
            st["start"] = list(g["theta"])      # half a turn of the tool away from the goal, to the last bit
            sk = "given"
        if th is not None and sk == "near":
            d = _unit_n(ro, n)
            rad = ro.choice([0.0, 0.005, 0.0199])
            st["start"] = [float(th[j] + rad * d[j]) for j in range(n)]
            st["local"] = True
        elif th is not None and sk == "mid":
            st["start"] = [float(th[j] + ro.uniform(-0.5, 0.5)) for j in range(n)]
        elif sk == "far" or (th is None and sk in ("near", "mid")):
            st["start"] = [round(x, 6) for x in in_limits(1.0)]
        elif sk == "outside":
            s = in_limits(1.0)
            j = ro.randrange(n)
            s[j] = maxs[j] + ro.uniform(0.01, 0.5) if ro.random() < 0.5 else mins[j] - ro.uniform(0.01, 0.5)
            st["start"] = [float(x) for x in s]
        if restart_mode == "off":
            st["check"] = False
        else:
            st["check"] = ro.random() < 0.9
        st["level"] = pick_weighted(ro, [(6, 4.0), (0, 0.5), (1, 1.0), (2, 1.0), (ro.randint(3, 8), 1.5)])
        st["max_iters"] = {"tiny": ro.randint(1, 3), "small": ro.randint(3, 8), "mid": ro.randint(8, 14),
                           "generous": ro.choice([20, 30, 30, 60])}[iters_mode]
        if st.get("local") and ro.random() < 0.7:
            st["max_iters"] = max(st["max_iters"], ro.choice([10, 12, 30]))
        if restart_mode == "scripted":
            if campaign == "nearmiss":
                st["check"] = True
                st["level"] = max(st["level"], ro.randint(2, 6))
            L = max(st["level"], 1)
            k_succ = ro.randrange(L + 1)          # which restart (if any) gets the near-solution draw
            if campaign == "nearmiss":
                k_succ = ro.randrange(1, L)
            kinds = []
            for i in range(L):
                others = ["far", "uniform", "edge", "zero", "near_mid", "near_mid", "near_wide", "near_wide"]
                if campaign == "nearmiss":
                    others = ["near_mid", "near_mid", "near_wide", "far"]
                kinds.append("near" if i == k_succ else ro.choice(others))
            st["rs"] = {"kinds": kinds, "seed": ro.getrandbits(32)}
        else:
            st["rs"] = {"kinds": ["uniform"], "seed": ro.getrandbits(32)}
        if th is not None:
            st["_target"] = [float(x) for x in th]
        return st

    def ikfree_step():
        th = in_limits(0.8)
        st = {"op": "IKFree", "goal": {"k": "fk", "theta": [round(x, 6) for x in th]}}
        k = ro.randint(1, n)
        inds = sorted(ro.sample(range(n), k))
        start = list(th)
        for j in inds:
            start[j] = th[j] + ro.uniform(-0.4, 0.4)
        mode = pick_weighted(ro, [("exact", 3.0), ("slightly_off", 3.0), ("off", 1.0)])
        if mode != "exact":
            fixed = [j for j in range(n) if j not in inds]
            for j in fixed:
                start[j] = th[j] + (log_uniform(ro, 1e-6, 3e-3) if mode == "slightly_off" else ro.uniform(-0.3, 0.3)) * ro.choice([-1, 1])
        st["start"] = [float(x) for x in start]
        st["inds"] = inds
        return st

    n_ik = 0
    if campaign == "failstreak":
        for _ in range(ro.randint(3, 5)):
            steps.append({"op": "IK" if ro.random() < 0.5 else "cIK", "check": False, "level": 6, "max_iters": ro.randint(1, 4),
                          "goal": {"k": "beyond", "dir": [round(x, 4) for x in _unit(ro)], "f": 2.0, "rot": [0.0, 0.0, 0.0]},
                          "start": [round(x, 6) for x in in_limits(1.0)], "rs": {"kinds": ["uniform"], "seed": ro.getrandbits(32)}})
        length = max(length, len(steps) + 2)
    while len(steps) < length + (1 if t else 0) or n_ik == 0:
        k = pick_weighted(ro, [("ik", 7.0), ("ikfree", 1.2), ("FK", 1.0), ("move", 0.7), ("home", 0.5), ("restoreEE", 0.3),
                               ("limits", 0.5), ("tol", 0.5)])
        if k == "ik":
            steps.append(ik_step())
            n_ik += 1
        elif k == "ikfree":
            steps.append(ikfree_step())
            n_ik += 1
        elif k == "FK":
            st = {"op": "FK", "theta": [round(x, 6) for x in in_limits(1.0)]}
            if ro.random() < 0.25 and not has_prismatic:
                # unprotected FK may park the arm outside its limits
                j = ro.randrange(n)
                st["theta"][j] = float(maxs[j] + ro.uniform(0.05, 0.6))
                st["protect"] = True
            steps.append(st)
        elif k == "move":
            stat = ro.random() < 0.3
            if stat and ro.random() < 0.7:
                # a small shift of the base from where the arm was built: the old tool pose stays within reach
                b0 = list(spec.get("base") or [0.0] * 6)
                base = [round(b0[i_] + ro.uniform(-0.3, 0.3), 3) for i_ in range(3)] + [round(b0[3 + i_] + ro.uniform(-0.2, 0.2), 3) for i_ in range(3)]
            else:
                base = [round(ro.uniform(-3, 3), 3) for _ in range(3)] + [round(ro.uniform(-1.5, 1.5), 3) for _ in range(3)]
            steps.append({"op": "move", "base": base, "stationary": stat, "rs": {"kinds": ["uniform"], "seed": ro.getrandbits(32)}})
        elif k == "home":
            steps.append({"op": "home", "rel": [round(ro.uniform(-0.3, 0.3), 3) for _ in range(3)] + [round(ro.uniform(-0.5, 0.5), 3) for _ in range(3)]})
            if ro.random() < 0.7:
                steps.append({"op": "FK", "theta": [round(x, 6) for x in in_limits(1.0)]})
        elif k == "restoreEE":
            steps.append({"op": "restoreEE"})
            if ro.random() < 0.7:
                steps.append({"op": "FK", "theta": [round(x, 6) for x in in_limits(1.0)]})
        elif k == "limits":
            if ro.random() < 0.5:
                shrink = ro.uniform(0.5, 1.0)
                mins = mins * shrink
                maxs = maxs * shrink
            else:
                # move the window (a joint-zero offset): limits that are no longer symmetric about zero
                shift = np.array([0.0 if (has_prismatic and spec["prismatic"][j_]) else ro.uniform(-1.5, 1.5) for j_ in range(n)])
                mins = mins + shift
                maxs = maxs + shift
            steps.append({"op": "limits", "mins": [float(x) for x in mins], "maxs": [float(x) for x in maxs],
                          "how": ro.choice(["setter", "setter", "assign", "inplace"])})
        elif k == "tol":
            t2 = tol_step()
            if t2:
                steps.append(t2)
    # The same question twice: a solve, then a change of what the answer depends on (tighter tolerances, other limits) or
    # nothing at all, then the same goal from the same start again.  An answer remembered from the first time is only an
    # answer to the second question if everything it depends on is the same (seeded change c07p: a memo keyed on goal, start,
    # geometry and limits, not on the tolerances).
    rq = stream(seed, "reask")
    if rq.random() < 0.12:
        cands = [i_ for i_, x in enumerate(steps) if x["op"] in ("IK", "cIK") and x.get("start") is not None
                 and x["goal"]["k"] in ("fk", "pose")]
        if cands:
            i_ = rq.choice(cands)
            q = steps[i_]
            coarse = {"op": "tol", "pos": float("%.3g" % log_uniform(rq, 1e-3, 5e-2)), "rot": float("%.3g" % log_uniform(rq, 1e-3, 5e-2))}
            again = json.loads(json.dumps(q))
            if "rs" in again:
                again["rs"] = dict(again["rs"], seed=rq.getrandbits(32))
            what = pick_weighted(rq, [("tol", 4.0), ("limits", 1.0), ("nothing", 1.0), ("move", 0.8), ("home", 0.6)])
            between = []
            if what == "tol":
                between = [{"op": "tol", "pos": float("%.3g" % (coarse["pos"] * 10 ** -rq.uniform(2, 5))),
                            "rot": float("%.3g" % (coarse["rot"] * 10 ** -rq.uniform(2, 5)))}]
            elif what == "limits":
                between = [{"op": "limits", "mins": [float(x) * 0.93 for x in mins], "maxs": [float(x) * 0.93 for x in maxs],
                            "how": rq.choice(["setter", "assign", "inplace"])}]
            elif what == "move":
                # (an absolute goal pose stays the same question for the caller; the arm it is asked of has moved)
                between = [{"op": "move", "base": [round(rq.uniform(-0.4, 0.4), 3) for _ in range(3)] + [round(rq.uniform(-0.3, 0.3), 3) for _ in range(3)],
                            "stationary": False, "rs": {"kinds": ["uniform"], "seed": rq.getrandbits(32)}}]
            elif what == "home":
                between = [{"op": "home", "rel": [round(rq.uniform(-0.2, 0.2), 3) for _ in range(3)] + [round(rq.uniform(-0.3, 0.3), 3) for _ in range(3)]}]
            steps[i_:i_ + 1] = [coarse, q] + between + [again]
    # A violation ends a history -- also one that the known-findings file then tolerates.  Goals half a turn from the start hit
    # the half-turn finding in every second call, so they go last: nothing generated after them is lost (review 2).
    steps = [x for x in steps if x.get("goal", {}).get("k") != "halfturn"] + [x for x in steps if x.get("goal", {}).get("k") == "halfturn"]
    return {"property": PROP, "config": {"arm": spec, "swarm": {"tol": tol_mode, "iters": iters_mode, "restarts": restart_mode,
                                                              "p_protect": p_protect, "campaign": campaign}}, "steps": steps}


def _unit_n(r, n):
    v = [r.gauss(0, 1) for _ in range(n)]
    s = math.sqrt(sum(x * x for x in v)) or 1.0
    return [x / s for x in v]


# --------------------------------------------------------------------------- driver interface

LEVEL = "exploration"
HAS_CLOCK = False
TIERS = {
    "quick": {"runs": 40000, "wall": 90, "chunk": 100, "det_sample": 48, "min_wall": 60.0},
    "thorough": {"runs": 600000, "wall": 800, "chunk": 200, "det_sample": 96, "min_wall": 180.0},
}
RULE = ("One run = one arm (5 bundled URDFs, the 6R test arm, random 1-7-joint revolute chains; identity or random base) and a "
        "history of 1-10 operations over {IK, constrainedIK, IKFree, FK, move(+stationary), setArbitraryHome, restoreOriginalEE, "
        "setJointProperties, tolerance change} under a simulator-owned PRNG whose restart draws are uniform or scripted "
        "(near-solution at a chosen restart index, far, edge, zero). Goals: FK of in-limit vectors, vectors on the limit boundary, "
        "poses beyond a rigorous reach bound, arbitrary poses, the arm's own reported pose, the start pose turned by half a turn. Non-trivial = the run contained at least one IK-family call that "
        "returned; distinct = distinct event-log digest. states = distinct abstract arm states after a step (arm, #joints, base, "
        "coherent?, stored joints inside limits?, moved/re-tooled?, tolerance order, last op); transitions = distinct solve classes (arm, path, outcome, restart index "
        "of success, check flag, first draw-script kind, tolerance order, goal kind).")
REAL = ["kinematics.arm_model.Arm (IK, constrainedIK, IKFree, FK, move, setArbitraryHome ...)", "loadArmFromURDF on the bundled URDFs",
        "fmr.IKinSpace / IKinSpaceConstrained / FKinSpace (Numba-compiled)", "scipy.optimize.root (inside IKFree)"]
STUB = ["the name `random` inside arm_model (dsim.simrandom.SimRandom: explicit or scripted restart draws)", "sys.stdout (null sink)"]
ASSUMPTIONS = [
    "the arm's geometry (screw list, home pose) as configured is the ground truth; FK of a returned vector is recomputed by an "
    "independent NumPy product of exponentials (validated against Arm.FK at warm-up)",
    "tolerance reading is the lenient one: angular error = |log(R^T R_goal)|; linear error = min(|v_s|, |v_b|, |dp|)",
    "an unreachable goal = position beyond anchor + sum of link lengths (triangle inequality), factor >= 1.02",
    "no clock, network, disk or crash exists here; the only schedule is the restart draw sequence",
]
EXPECTED_PROBES = ["success_first_attempt", "success_on_restart", "success_on_restart_1", "success_on_restart_3",
                   "all_restarts_failed", "failure_check_false", "path_free", "path_constrained", "path_ikfree",
                   "tol_pos_gt_rot", "tol_rot_gt_pos", "goal_on_limit_boundary", "goal_beyond_reach",
                   "unreachable_goal_reported_failure", "solve_after_move_or_retool", "start_from_current_state",
                   "local_clause_applicable", "move_stationary_internal_ik", "goal_is_current_reported_pose",
                   "goal_is_stale_reported_pose", "arm_with_prismatic_joint", "returned_vector_edited_by_caller", "goal_object_moved_by_caller",
                   "limits_changed_assign", "limits_changed_inplace", "move_stationary_kept_tool_pose", "move_stationary_gave_up_coherently",
                   "move_stationary_internal_ik_judged", "goal_half_turn_from_start", "raise_left_arm_coherent",
                   "goal_rotation_vector_longer_than_a_turn"]


def warmup():
    from dsim import use_repo
    use_repo()
    _load()
    # compile the kernels once (forked workers inherit them) and validate the independent FK
    rr = stream(7, "warm")
    for f in URDFS + ["6R"]:
        spec = {"kind": "6R"} if f == "6R" else {"kind": "urdf", "file": f}
        old = sys.stdout
        sys.stdout = _Null()
        try:
            arm = build_arm(spec)
            for _ in range(3):
                th = np.array([rr.uniform(float(a) * 0.9, float(b) * 0.9) for a, b in zip(arm.joint_mins, arm.joint_maxs)])
                mine = poe(np.array(arm.screw_list, float), np.array(arm._end_effector_home.gTM(), float), th)
                theirs = np.array(arm.FK(th.copy()).gTM(), float)
                if np.max(np.abs(mine - theirs)) > 1e-5:
                    raise HarnessError("independent FK disagrees with Arm.FK on %s by %g" % (f, np.max(np.abs(mine - theirs))))
            _load()["am"].random = SimRandom(source=lambda: [0.5] * 8)
            try:
                g = arm.FK(np.array(arm.joint_maxs) * 0.3)
                for call in (lambda: arm.IK(g, np.zeros(arm.num_dof)), lambda: arm.IK(g, np.zeros(arm.num_dof), protect=True),
                             lambda: arm.IKFree(g, np.array(arm.joint_maxs) * 0.25, [0])):
                    try:
                        call()          # only to compile the kernels; what the calls do is judged by the runs
                    except Exception:
                        pass
            finally:
                _load()["am"].random = _load()["real_random"]
        finally:
            sys.stdout = old


def variants(trace, run):
    return []


def describe(trace):
    def fmt(s):
        out = {k: v for k, v in s.items() if k in ("op", "check", "level", "max_iters", "protect", "inds", "stationary")}
        if "goal" in s:
            out["goal"] = s["goal"]["k"] + ("/boundary" if s["goal"].get("boundary") else "")
        if "rs" in s:
            out["restart_script"] = s["rs"]["kinds"]
        if "draws" in s:
            out["draws"] = len(s["draws"])
        if "start" in s:
            out["start"] = "given" if s["start"] is not None else None
        if s["op"] == "tol":
            out.update(pos=s["pos"], rot=s["rot"])
        return out
    arm = trace["config"]["arm"]
    return {"arm": arm.get("file", arm["kind"]) + ("+base" if arm.get("base") else ""), "steps": [fmt(s) for s in trace["steps"]]}


def _explicit(trace):
    """Write the consumed draws of every step into the trace (replay files hold the schedule, not a seed)."""
    import copy
    run = IKRun(trace)
    try:
        run.run()
    except (Violation, Inconclusive):
        pass
    t = copy.deepcopy(trace)
    for i, st in enumerate(t["steps"]):
        if i < len(run.step_draws):
            st["draws"] = list(run.step_draws[i])
            st.pop("rs", None)
            st.pop("_target", None)
    t["steps"] = t["steps"][:len(run.step_draws)]
    return t


def _still(trace, clause):
    try:
        _, v = execute(trace, collect=False)
    except (HarnessError, Inconclusive):
        return False
    return v is not None and v.clause == clause


def minimise(trace, clause, budget):
    import copy
    from dsim.shrink import ddmin
    tr = _explicit(trace)
    if not _still(tr, clause):
        return trace
    tr["config"].pop("swarm", None)
    last = tr["steps"][-1]
    head = ddmin(tr["steps"][:-1], lambda s: _still(dict(tr, steps=s + [last]), clause), budget)
    tr = dict(tr, steps=head + [last])

    def try_step(i, mut):
        nonlocal tr
        if not budget.spend():
            return
        cand = copy.deepcopy(tr)
        if mut(cand["steps"][i]) is False:
            return
        if _still(cand, clause):
            tr = cand
    li = len(tr["steps"]) - 1

    def drop_draws(s):
        if not s.get("draws"):
            return False
        s["draws"] = []
    try_step(li, drop_draws)

    def nocheck(s):
        if s.get("op") not in ("IK", "cIK") or s.get("check") is False:
            return False
        s["check"] = False
    try_step(li, nocheck)

    def dflt_level(s):
        if s.get("level", 6) == 6:
            return False
        s["level"] = 6
    try_step(li, dflt_level)

    def dflt_iters(s):
        if s.get("max_iters", 30) == 30:
            return False
        s["max_iters"] = 30
    try_step(li, dflt_iters)

    def round_start(s):
        if s.get("start") is None:
            return False
        s["start"] = [round(x, 3) for x in s["start"]]
    try_step(li, round_start)

    def no_start(s):
        if s.get("start") is None or s.get("op") == "IKFree":
            return False
        s["start"] = None
    try_step(li, no_start)
    for i in range(len(tr["steps"])):
        def round_tol(s):
            if s.get("op") != "tol":
                return False
            s["pos"] = float("%.0e" % s["pos"])
            s["rot"] = float("%.0e" % s["rot"])
        try_step(i, round_tol)
    if tr["config"]["arm"].get("base"):
        if budget.spend():
            cand = copy.deepcopy(tr)
            cand["config"]["arm"].pop("base")
            if _still(cand, clause):
                tr = cand
    return tr


def signature(trace, violation):
    d = violation.detail
    last = trace["steps"][-1] if trace["steps"] else {}
    return {"clause": violation.clause, "op": d.get("op", last.get("op")), "path": d.get("path"), "ang": d.get("ang"),
            "rot_tol": d.get("rot_tol"), "raw_free_max": d.get("raw_free_max"), "lin": d.get("lin"), "min_tol": d.get("min_tol"),
            "lib_ang_ok": d.get("lib_ang_ok"), "ang_from_pi": d.get("ang_from_pi"), "lib_acos_above_m1": d.get("lib_acos_above_m1"), "pos_ok": d.get("pos_ok"), "wrap_explains": d.get("wrap_explains"), "blind_explains": d.get("blind_explains"), "nearzero_explains": d.get("nearzero_explains"),
            "prismatic_wrapped": d.get("prismatic_wrapped"),
            "arm": d.get("arm"), "exception": d.get("exception"), "check": last.get("check"),
            "n_steps": len(trace["steps"]), "reachable": d.get("reachable")}
