"""Fidelity of the socket stub: the same fault-free router scripts on SimSocket and on real 127.0.0.1 sockets.

Never produces a VIOLATION (real sockets are not under the simulator's control): a disagreement means the
stub misrepresents the kernel and is reported as HARNESS-ERROR.  Compared per step: return value, exception
type, received values per endpoint, multiset of deliveries (double sends, datagrams on the wire, sink calls).
"""
import copy
import json
import os
import socket as real_socket
import sys
import time
from collections import Counter

from dsim import HarnessError, OUT_DIR
from dsim.rng import run_seed, stream
from dsim.trace import EventLog

from . import c19_router as R


class RealSock:
    """Thin observing wrapper around a real UDP socket (same surface as SimSocket)."""

    def __init__(self, net, label=None):
        self.net = net
        self.s = real_socket.socket(real_socket.AF_INET, real_socket.SOCK_DGRAM)
        self.label = label
        self.inbox = []
        self.closed = False
        net.socks.append(self)

    def settimeout(self, t):
        self.s.settimeout(min(t, self.net.max_timeout) if t else t)

    def bind(self, addr):
        self.s.bind((addr[0], self.net.port(addr[1])))

    def sendto(self, data, addr):
        if self.net.hook_send is not None and not self.closed:
            self.net.hook_send(self, data, addr)
        return self.s.sendto(data, (addr[0], self.net.port(addr[1])))

    def recvfrom(self, n):
        pos = self.net.next_recv_pos()
        try:
            data, src = self.s.recvfrom(n)
        except TimeoutError:
            if self.net.hook_recv is not None:
                self.net.hook_recv(self, pos, None)
            raise
        if self.net.hook_recv is not None:
            self.net.hook_recv(self, pos, data)
        return data, src

    def shutdown(self, how):
        return self.s.shutdown(how)

    def close(self):
        self.closed = True
        return self.s.close()


class RealNet:
    def __init__(self, log):
        self.log = log
        self.socks = []
        self.portmap = {}
        self.hook_recv = None
        self.hook_send = None
        self.force_nodata = frozenset()
        self.recv_pos = 0
        self.inbox_cap = 64
        self.max_timeout = 0.03
        self.stats = Counter()
        self._holders = []

    def port(self, logical):
        if logical not in self.portmap:
            # ask the kernel for a free port, remember it, release it
            s = real_socket.socket(real_socket.AF_INET, real_socket.SOCK_DGRAM)
            s.bind(("127.0.0.1", 0))
            self.portmap[logical] = s.getsockname()[1]
            s.close()
        return self.portmap[logical]

    def set_fates(self, fates):
        pass

    def ephemeral(self):
        return 0

    def next_recv_pos(self):
        p = self.recv_pos
        self.recv_pos += 1
        return p

    def close_all(self):
        for s in self.socks:
            try:
                s.close()
            except OSError:
                pass


class RealSocketModule:
    AF_INET = real_socket.AF_INET
    SOCK_DGRAM = real_socket.SOCK_DGRAM
    SHUT_RDWR = real_socket.SHUT_RDWR
    SHUT_RD = real_socket.SHUT_RD
    SHUT_WR = real_socket.SHUT_WR
    timeout = TimeoutError
    error = OSError

    def __init__(self, net):
        self.net = net

    def socket(self, family=None, type=None, proto=0):
        return RealSock(self.net)


class Summary:
    """Per-step observable outcome, backend independent."""

    def __init__(self):
        self.rows = []


class RealRouterRun(R.RouterRun):
    """The same executor, model and oracle, on real 127.0.0.1 sockets."""

    def _make_net(self, cfg):
        self.clock = type("C", (), {"now": 0.0, "advance": lambda self, dt: time.sleep(min(dt, 0.01))})()
        self.net = RealNet(self.log)
        self.sockmod = RealSocketModule(self.net)

    def _make_peer_socket(self, label):
        return RealSock(self.net, label)


def run_backend(trace, backend):
    run = (R.RouterRun if backend == "sim" else RealRouterRun)(trace)
    run.collect = False
    run._deleted = set()
    run._seen_vals = set()
    run._held_vals = set()
    rows = []
    viol = None
    try:
        for st in trace["steps"]:
            try:
                run.step(st)
            except R.Violation as v:
                viol = v
            c = run.ctx
            rows.append({"op": st["op"],
                         "recvs": sorted((r[0], r[1], r[3]) for r in c.recvs if r[3] is not None),
                         "nodata": sorted((r[0], r[1]) for r in c.recvs if r[3] is None),
                         "deliv": sorted(repr((d[0], d[1], d[2], d[3][0] if d[0] == "wire" else d[3])) for d in c.deliv),
                         "violation": viol.clause if viol else None})
            if viol:
                break
            if backend == "real" and st["op"] in ("peer_send", "send", "spin", "get"):
                time.sleep(0.002)      # loopback delivery is asynchronous by a few microseconds
    finally:
        if backend == "real":
            run.net.close_all()
    return rows


def fidelity_trace(seed):
    """A fault-free, UDP-heavy history with zero latencies and a generous inbox."""
    for k in range(50):
        tr = R.gen_trace(seed + k * 7919)
        kinds = [e["kind"] for h in tr["config"]["hubs"] for e in h["eps"]]
        if "udp" in kinds and tr.get("fault_mode") in ("none", "nodata"):
            break
    tr = copy.deepcopy(tr)
    tr["nodata"] = []
    tr["config"]["inbox_cap"] = 64
    for h in tr["config"]["hubs"]:
        for e in h["eps"]:
            if e["kind"] == "udp":
                e["tau"] = 0.03
    steps = []
    for s in tr["steps"][:25]:
        s = {k: v for k, v in s.items() if k != "fates"}
        if s["op"] == "idle":
            s["dt"] = 0.0
        if s["op"] == "spin":
            s["k"] = min(s["k"], 2)
        steps.append(s)
    tr["steps"] = steps
    return tr


def main(argv):
    from dsim import use_repo
    use_repo()
    R.warmup()
    n = int(argv[0]) if argv else 150
    base = int(os.environ.get("VERIF_SEED", "0") or 0)
    bad = 0
    compared = 0
    steps = 0
    t0 = time.time()
    samples = []
    stats = Counter()
    for i in range(n):
        tr = fidelity_trace(run_seed(base, "C19-fidelity", i))
        a = run_backend(copy.deepcopy(tr), "sim")
        b = run_backend(copy.deepcopy(tr), "real")
        compared += 1
        steps += len(a)
        for row in b:
            stats["data_receives"] += len(row["recvs"])
            stats["no_data_receives"] += len(row["nodata"])
            stats["deliveries"] += len(row["deliv"])
            stats["op_" + row["op"]] += 1
        if a != b:
            bad += 1
            k = next((j for j in range(min(len(a), len(b))) if a[j] != b[j]), min(len(a), len(b)))
            print("FIDELITY MISMATCH trace %d step %d:\n  sim : %r\n  real: %r" % (i, k, a[k] if k < len(a) else None, b[k] if k < len(b) else None))
            if len(samples) < 3:
                samples.append({"trace": tr, "step": k})
    doc = {"traces": compared, "steps": steps, "mismatches": bad, "wall_s": round(time.time() - t0, 1), "samples": samples,
           "observed": dict(stats)}
    os.makedirs(OUT_DIR, exist_ok=True)
    json.dump(doc, open(os.path.join(OUT_DIR, "selftest-fidelity.json"), "w"), indent=1)
    print("fidelity: %d traces, %d steps compared on SimSocket and on real loopback sockets: %d mismatches (%.0fs)" % (
        compared, steps, bad, time.time() - t0))
    print("  observed on the real backend: %s" % dict(sorted(stats.items())))
    if bad:
        print("HARNESS-ERROR the socket stub disagrees with real sockets")
        return 2
    return 0
