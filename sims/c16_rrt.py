"""C16 -- RRT*: collision-free, cost-consistent tree and a path in it, for any seed.

The one nondeterminism of the planner is the process-global `random` module.  The
simulator replaces the name `random` inside pathplanner by dsim.simrandom.SimRandom,
so that a run is a pure function of (configuration, unit draws); scripted draw kinds
force the branches natural draws reach rarely (exact ties, duplicates, samples that
straddle the minimum/maximum connection distance, samples whose edge crosses a box).
Every generator / distance / collision call is recorded at the call-back seam while
the tree grows; afterwards the recorded growth history is replayed against a brute-force
nearest-neighbour reference.  See DESIGN.md section 3.

Real: RRTStar, R6Tree, PathNode, rtree/libspatialindex, tm, fsr.distance/arcDistance, progressBar.
Stub: `random` in pathplanner, sys.stdout, and (custom mode) the three call-backs.
"""
import io
import math
import os
import sys

import numpy as np

from dsim import HarnessError, Violation, Inconclusive
from dsim.rng import stream, pick_weighted
from dsim.simrandom import SimRandom, ONE_MINUS
from dsim.trace import EventLog, digest_int

PROP = "C16"
REL = 1e-9

_m = {}


def _load():
    if not _m:
        from basic_robotics.path_planning import pathplanner
        from basic_robotics.general import tm, fsr
        _m["pp"] = pathplanner
        _m["tm"] = tm
        _m["fsr"] = fsr
        _m["real_random"] = pathplanner.random
        from basic_robotics.utilities import disp
        _m["disp"] = disp
    return _m


def fl(x):
    """float() of a scalar or of a one-element array (fsr.arcDistance returns shape (1,))."""
    if isinstance(x, (float, int)):
        return float(x)
    a = np.asarray(x, dtype=float).reshape(-1)
    if a.size != 1:
        raise HarnessError("expected a scalar, got shape %r" % (np.shape(x),))
    return float(a[0])


def pos6(t):
    a = t.gTAA() if hasattr(t, "gTAA") else np.asarray(t)
    a = np.asarray(a, dtype=float).reshape(-1)
    return tuple(float(x) for x in a[:6])


def _rotvec_to_R(w):
    w = np.asarray(w, float)
    th = float(np.linalg.norm(w))
    if th < 1e-12:
        return np.eye(3)
    k = w / th
    K = np.array([[0, -k[2], k[1]], [k[2], 0, -k[0]], [-k[1], k[0], 0]])
    return np.eye(3) + math.sin(th) * K + (1 - math.cos(th)) * (K @ K)


def ref_builtin_distance(a6, b6, dmode):
    """(translation, rotation angle) between two poses given by their 6 floats (the angle only for dmode 1); None where
    the relative rotation is within 1e-4 of half a turn (the library's log is unreliable there -- C01's business)."""
    a6, b6 = np.asarray(a6, float), np.asarray(b6, float)
    dp = float(np.linalg.norm(b6[:3] - a6[:3]))
    if dmode != 1:
        return dp, 0.0
    E = _rotvec_to_R(a6[3:]).T @ _rotvec_to_R(b6[3:])
    v = np.array([E[2, 1] - E[1, 2], E[0, 2] - E[2, 0], E[1, 0] - E[0, 1]]) * 0.5
    ang = math.atan2(float(np.linalg.norm(v)), (float(np.trace(E)) - 1) * 0.5)
    if abs(ang - math.pi) < 1e-4:
        return None
    return dp, ang


# --------------------------------------------------------------------------- pure call-backs (custom mode)

def d_euclid3(a, b):
    return math.sqrt((a[0] - b[0]) ** 2 + (a[1] - b[1]) ** 2 + (a[2] - b[2]) ** 2)


def d_euclid6(a, b):
    return math.sqrt(sum((a[i] - b[i]) ** 2 for i in range(6)))


def d_weighted(a, b):
    return math.sqrt(sum((a[i] - b[i]) ** 2 for i in range(3)) + 0.25 * sum((a[i] - b[i]) ** 2 for i in range(3, 6)))


def d_manhattan(a, b):
    return abs(a[0] - b[0]) + abs(a[1] - b[1]) + abs(a[2] - b[2])


DIST = {"euclid3": d_euclid3, "euclid6": d_euclid6, "weighted": d_weighted, "manhattan": d_manhattan}


def seg_box(a, b, lo, hi):
    """Slab test: does segment a-b (3-D) meet the closed box [lo,hi]?  Independent of RRTStar.obstruction."""
    t0, t1 = 0.0, 1.0
    for i in range(3):
        d = b[i] - a[i]
        if d == 0.0:
            if a[i] < lo[i] or a[i] > hi[i]:
                return False
        else:
            x0 = (lo[i] - a[i]) / d
            x1 = (hi[i] - a[i]) / d
            if x0 > x1:
                x0, x1 = x1, x0
            if x0 > t0:
                t0 = x0
            if x1 < t1:
                t1 = x1
            if t0 > t1:
                return False
    return True


def seg_sphere(a, b, c, r):
    ab = [b[i] - a[i] for i in range(3)]
    ac = [c[i] - a[i] for i in range(3)]
    L2 = sum(x * x for x in ab)
    t = 0.0 if L2 == 0 else max(0.0, min(1.0, sum(ab[i] * ac[i] for i in range(3)) / L2))
    p = [a[i] + t * ab[i] for i in range(3)]
    return sum((p[i] - c[i]) ** 2 for i in range(3)) <= r * r


def make_collider(spec):
    kind = spec["kind"]
    if kind == "none":
        return lambda a, b: False
    if kind == "boxes":
        boxes = spec["boxes"]
        return lambda a, b: any(seg_box(a, b, L, R) for L, R in boxes)
    if kind == "spheres":
        sph = spec["spheres"]
        return lambda a, b: any(seg_sphere(a, b, c, r) for c, r in sph)
    if kind == "halfspace":
        z = spec["z"]
        return lambda a, b: (a[2] < z) or (b[2] < z)
    raise HarnessError("unknown collider %r" % (kind,))


# --------------------------------------------------------------------------- draw scripts

class DrawSource:
    """Produces the next group of six unit draws (one pose sample) for search runs."""

    def __init__(self, seed, cfg, run):
        self.r = stream(seed, "draws")
        self.cfg = cfg
        self.run = run
        w = cfg["script"]
        self.table = [(k, w.get(k, 0.0)) for k in ("uniform", "edge", "near", "near_last", "duplicate", "lattice", "far", "into", "march")]
        self.grid = cfg.get("grid", 4)
        self.kinds = {}

    def _units(self, target):
        out = []
        for i in range(6):
            lo, hi = self.cfg["bounds"][i]
            u = 0.5 if hi == lo else (target[i] - lo) / (hi - lo)
            out.append(min(max(u, 0.0), ONE_MINUS))
        return out

    def __call__(self):
        r = self.r
        kind = pick_weighted(r, self.table)
        acc = self.run.accepted_units
        if kind in ("near", "near_last", "duplicate", "far", "into", "march") and not self.run.node_list:
            kind = "uniform"
        self.run.faults["script_" + kind] += 1
        if kind == "uniform":
            return [r.random() for _ in range(6)]
        if kind == "edge":
            return [r.choice([0.0, ONE_MINUS, r.random()]) for _ in range(6)]
        if kind == "lattice":
            g = self.grid
            return [min(r.randrange(g) / (g - 1), ONE_MINUS) for _ in range(6)]
        if kind == "duplicate":
            if acc:
                return list(r.choice(acc))
            return self._units(r.choice(self.run.node_list))
        base = r.choice(self.run.node_list)
        if kind == "near":
            # a point whose 3-D offset from an existing node straddles the minimum or maximum distance
            which = r.choice(["min", "min", "max"])
            rad = self.cfg["min"] if which == "min" else self.cfg["max"]
            rad *= r.choice([0.5, 0.999999, 1.0, 1.000001, 1.5])
            v = [r.gauss(0, 1) for _ in range(3)]
            n = math.sqrt(sum(x * x for x in v)) or 1.0
            tgt = [base[i] + rad * v[i] / n for i in range(3)] + list(base[3:6])
            return self._units(tgt)
        if kind == "march":
            # a march in rows (serpentine): every step goes on from the newest node and leaves every older node farther away
            # than the step itself, so the newest node is the nearest one and the branch grows by one link per iteration
            base = self.run.node_list[-1]
            stt = self.kinds.setdefault("march", {})
            bx, by = self.cfg["bounds"][0], self.cfg["bounds"][1]
            lo = self.cfg["min"] * 1.2
            hi = min(self.cfg["max"] * 0.24, lo * 3)
            if "dir" not in stt:
                stt["dir"] = 1.0
                stt["row"] = 1.0 if base[1] < (by[0] + by[1]) / 2 else -1.0
            rad = r.uniform(lo, hi)
            x, y = base[0] + stt["dir"] * rad, base[1]
            z = base[2]
            if not (bx[0] + 0.03 * (bx[1] - bx[0]) <= x <= bx[1] - 0.03 * (bx[1] - bx[0])):
                stt["dir"] = -stt["dir"]
                x, y = base[0], base[1] + stt["row"] * 4 * hi
                if not (by[0] + 0.03 * (by[1] - by[0]) <= y <= by[1] - 0.03 * (by[1] - by[0])):
                    # out of rows on this level: next level, rows back the other way
                    bz = self.cfg["bounds"][2]
                    stt["row"] = -stt["row"]
                    stt.setdefault("lvl", 1.0 if base[2] < (bz[0] + bz[1]) / 2 else -1.0)
                    y, z = base[1], base[2] + stt["lvl"] * 4 * hi
            tgt = [x, y, z] + list(base[3:6])
            return self._units(tgt)
        if kind == "near_last":
            # a step of connectable length away from the most recently inserted node: grows long chains (deep trees)
            base = self.run.node_list[-1]
            B = self.cfg["bounds"][0][1]
            lo = self.cfg["min"] * 1.1
            hi = max(lo * 1.5, min(self.cfg["max"] * 0.95, 0.4 * B))
            rad = r.uniform(lo, hi)
            v = [r.gauss(0, 1) for _ in range(3)]
            n = math.sqrt(sum(x * x for x in v)) or 1.0
            tgt = [base[i] + rad * v[i] / n for i in range(3)] + list(base[3:6])
            return self._units(tgt)
        if kind == "far":
            tgt = [self.cfg["bounds"][i][0] if base[i] > 0 else self.cfg["bounds"][i][1] for i in range(6)]
            return self._units(tgt)
        if kind == "into":
            boxes = self.run.box_list
            if not boxes:
                return [r.random() for _ in range(6)]
            L, R = r.choice(boxes)
            c = [(L[i] + R[i]) / 2 for i in range(3)]
            s = r.uniform(1.2, 3.0)
            tgt = [base[i] + s * (c[i] - base[i]) for i in range(3)] + list(base[3:6])
            return self._units(tgt)
        raise HarnessError("unknown draw kind")


# --------------------------------------------------------------------------- executor

class SimTime16:
    """Stand-in for the `time` module as pathplanner and utilities.disp see it (pathplanner gets the name through
    `from ..utilities.disp import *`).  Nothing in the unchanged planner reads a clock; a change that starts to (a planning
    time budget, a progress ETA) then reads the simulator's: generator, distance and collision call-backs cost simulated
    time, per run nothing or up to seconds each (a slow collision checker)."""

    def __init__(self, run):
        self._run = run

    def time(self):
        self._run.probes["library_read_the_clock"] += 1
        return 1.7e9 + self._run.vnow

    def monotonic(self):
        self._run.probes["library_read_the_clock"] += 1
        return self._run.vnow

    perf_counter = monotonic

    def process_time(self):
        return self.monotonic()

    def time_ns(self):
        return int(self.time() * 1e9)

    def monotonic_ns(self):
        return int(self.monotonic() * 1e9)

    perf_counter_ns = monotonic_ns

    def sleep(self, dt):
        self._run.vnow += max(0.0, float(dt))

    def __getattr__(self, name):
        raise HarnessError("the code under test used time.%s, which the simulated clock does not model" % name)


_SIM_TIME_FUNCS = ("time", "monotonic", "perf_counter", "process_time", "time_ns", "monotonic_ns", "perf_counter_ns", "sleep")


def _sim_time_fn(st, fname):
    f_ = getattr(st, fname)

    def f(*a, **k):
        return f_(*a, **k)
    f._dsim_time = fname
    return f


def _install_clock(run, mods):
    for mod in mods:
        for k_, v_ in list(vars(mod).items()):
            tn_ = type(v_).__name__
            if isinstance(v_, SimTime16) or (tn_ == "module" and v_.__name__ == "time"):
                setattr(mod, k_, SimTime16(run))
                continue
            if tn_ not in ("function", "builtin_function_or_method"):
                continue
            fn_ = getattr(v_, "_dsim_time", None)
            if fn_ is None and tn_ == "builtin_function_or_method" and getattr(v_, "__module__", None) == "time" \
                    and v_.__name__ in _SIM_TIME_FUNCS:
                fn_ = v_.__name__
            if fn_ is not None:
                setattr(mod, k_, _sim_time_fn(SimTime16(run), fn_))


def _Null():
    """A real file object on the null device (has .buffer, .fileno(), .flush() like a normal stdout)."""
    return open(os.devnull, "w")


class RRTRun:
    sim_seconds = property(lambda self: self.vnow)

    def __init__(self, trace, keep_log=False):
        self.trace = trace
        self.cfg = trace["config"]
        self.log = EventLog(keep=True)     # the history oracle needs the whole log
        self.faults = __import__("collections").Counter()
        self.probes = __import__("collections").Counter()
        self.states = set()
        self.transitions = set()
        self.n_nontrivial = 0
        self.steps_done = 0
        self.accepted_units = []
        self.at_insert = {}
        self.node_epoch = {}
        self.epoch = 0
        self.node_list = []
        self.box_list = []
        self.consumed = None
        self.vnow = 0.0                 # simulated seconds spent in the call-backs (the only clock the planner can read)
        c_ = (trace.get("config") or {}).get("cost") or {}
        self.cost_gen, self.cost_dist, self.cost_coll = float(c_.get("gen", 0.0)), float(c_.get("dist", 0.0)), float(c_.get("coll", 0.0))

    # ---- build the planner --------------------------------------------------
    def _build(self):
        m = _load()
        pp, tm = m["pp"], m["tm"]
        cfg = self.cfg
        explicit = self.trace.get("draws")
        if explicit is not None:
            self.rnd = SimRandom(explicit=explicit, budget=len(explicit) + 1)
        else:
            src = DrawSource(self.trace["draw_seed"], cfg, self)
            self.rnd = SimRandom(source=src, budget=cfg.get("budget", 200 * cfg["iterations"] + 600))
        pp.random = self.rnd
        _install_clock(self, (pp, m["disp"]))
        if self.cost_coll or self.cost_dist or self.cost_gen:
            self.probes["callbacks_cost_simulated_time"] += 1
        origin = tm(list(cfg["origin"]))
        self.origin6 = pos6(origin)
        self.origin_tm = origin          # the caller's own object (kept to edit it later: the planner must not depend on it)
        pl = pp.RRTStar(origin)
        pl.bounds = [list(b) for b in cfg["bounds"]]
        pl.minimum_distance = cfg["min"]
        pl.maximum_distance = cfg["max"]
        pl.nearest_neighbors_limit = cfg["k"]
        pl.dmode = cfg["dmode"]
        pl.iterations = cfg["iterations"]
        # The obstruction set is what the caller DECLARED (own record, by value): the planner's list is the thing under test.
        # Corners are handed over as lists, as fresh tm objects, or through two scratch tm objects the caller re-uses for every
        # box and clears afterwards (its own objects: the declared boxes must not follow them)
        self.declared = []
        decl = cfg.get("box_decl", "list")
        scratch = (tm(), tm())
        for L, R in cfg.get("boxes", []):
            if decl == "list":
                pl.addObstruction(list(L), list(R))
            elif decl == "tm":
                pl.addObstruction(tm(list(L) + [0.0, 0.0, 0.0]), tm(list(R) + [0.0, 0.0, 0.0]))
            else:
                for i in range(3):
                    scratch[0][i] = float(L[i])
                    scratch[1][i] = float(R[i])
                pl.addObstruction(scratch[0], scratch[1])
            self.declared.append((tuple(float(x) for x in L), tuple(float(x) for x in R)))
        if decl == "tm_scratch" and cfg.get("boxes"):
            for i in range(3):
                scratch[0][i] = 0.0
                scratch[1][i] = 0.0
            self.probes["box_corners_declared_through_reused_objects"] += 1
        if cfg.get("terrain"):
            n0 = len(pl.obstructions)
            pl.generateTerrain(*cfg["terrain"])
            self.rnd.flush()
            self.declared += [(pos6(o[0])[:3], pos6(o[1])[:3]) for o in pl.obstructions[n0:]]   # generated, recorded by value
        self.planner = pl
        self.box_list = list(self.declared)
        self.node_list = [self.origin6]
        self.goal = tm(list(cfg["goal"]))
        # group bookkeeping for the `duplicate` script: units of the last generated sample
        self._last_units_start = len(self.rnd.consumed)

    # ---- recording call-backs --------------------------------------------------
    def clear_cut_collision(self, a6, b6):
        """Built-in pipeline only: does the segment pass through the INTERIOR (shrunk by 1e-6) of a current box?
        Independent slab test; a verdict 'free' from the planner's own predicate on such an edge is wrong whatever
        convention it uses on faces and edges (60 000 random queries: no disagreement on the unchanged tree)."""
        if self.cfg["mode"] != "builtin":
            return False
        eps = 1e-6
        for L, R in self.declared:
            lo = [min(L[i], R[i]) + eps for i in range(3)]
            hi = [max(L[i], R[i]) - eps for i in range(3)]
            if all(hi[i] > lo[i] for i in range(3)) and seg_box(a6, b6, lo, hi):
                return True
        return False

    def _rec_gen(self, node):
        p = pos6(node.getPosition())
        self.log.add("gen", p)
        self._cur_units = tuple(self.rnd.consumed[self._last_units_start:])
        self._last_units_start = len(self.rnd.consumed)
        self._cur_sample = p
        self.vnow += self.cost_gen
        return node

    def _rec_dist(self, a, b, d):
        self.log.add("dist", pos6(a), pos6(b), fl(d))
        self.vnow += self.cost_dist

    def _rec_coll(self, a, b, res):
        self.log.add("coll", pos6(a.getPosition()), pos6(b.getPosition()), bool(res))
        self.vnow += self.cost_coll

    def run(self):
        m = _load()
        pp, tm = m["pp"], m["tm"]
        self._build()
        cfg = self.cfg
        pl = self.planner
        run = self
        mode = cfg["mode"]
        if mode == "builtin":
            cls = type(pl)
            self.pure_dist = lambda a6, b6: fl(cls.distance(pl, tm(list(a6)), tm(list(b6))))
            self.pure_coll = lambda a6, b6: bool(cls.obstruction(pl, pp.PathNode(tm(list(a6))), pp.PathNode(tm(list(b6)))))

            def w_random():
                return run._rec_gen(cls.randomPos(pl))

            def w_dist(a, b):
                d = cls.distance(pl, a, b)
                run._rec_dist(a, b, d)
                # "the distance to its parent" in the built-in pipeline is the planner's documented distance mode: straight
                # line between the positions (0) or arc distance, sqrt(|dp|^2 + angle^2) (1).  Every cost, window and
                # cheapest-parent comparison is fed from this one function, so a wrong metric is consistently wrong
                # everywhere else; it is compared here with an independent evaluation.
                ref = ref_builtin_distance(pos6(a), pos6(b), cfg["dmode"])
                if ref is not None:
                    dp, ang = ref
                    v = fl(d)
                    if cfg["dmode"] != 1:
                        bad = abs(v - dp) > 1e-6 * (1.0 + dp)
                        want = "the straight-line distance is %.9f" % dp
                    else:
                        # Mode 1 measures translation AND rotation.  The statement does not fix the formula (this tree:
                        # sqrt(|dp|^2 + angle^2); the length of the connecting screw motion, up to pi/2 x longer in its linear
                        # part, is an equally consistent choice -- review 2, A7), so only what every such measure satisfies is
                        # demanded: at least the translation, at least the rotation, at most 1.6 x their root sum of squares.
                        rss = math.sqrt(dp * dp + ang * ang)
                        bad = v < max(dp, ang) * (1 - 1e-6) - 1e-9 or v > 1.6 * rss + 1e-9
                        want = "the poses are %.9f apart and turned by %.9f rad (an arc distance lies in [%.9f, %.9f])" % (
                            dp, ang, max(dp, ang), 1.6 * rss)
                    if bad or not math.isfinite(v):
                        raise Violation("T2-metric", "distance mode %d: the planner measured %.9f between %s and %s; %s" % (
                            cfg["dmode"], v, np.round(pos6(a), 4).tolist(), np.round(pos6(b), 4).tolist(), want), {"dmode": cfg["dmode"]})
                return d

            def w_coll(a, b):
                res = cls.obstruction(pl, a, b)
                run._rec_coll(a, b, res)
                return res
            pl.randomPos = w_random
            pl.distance = w_dist
            pl.obstruction = w_coll
            call = lambda: pl.findPath(run.goal)
        else:
            dfun = DIST[cfg["custom"]["dist"]]
            cfun = make_collider(cfg["custom"]["coll"])
            self.pure_dist = lambda a6, b6: float(dfun(a6, b6))
            self.pure_coll = lambda a6, b6: bool(cfun(a6, b6))
            if cfg["custom"]["coll"]["kind"] == "boxes":
                self.box_list = [tuple(map(tuple, b)) for b in cfg["custom"]["coll"]["boxes"]]
            bounds = cfg["bounds"]
            planar = cfg["custom"].get("planar", False)

            def gen():
                p = [run.rnd.uniform(bounds[i][0], bounds[i][1]) for i in range(6)]
                if planar:
                    p[3] = p[4] = p[5] = 0.0
                return run._rec_gen(pp.PathNode(tm(p)))

            ret = cfg["custom"].get("ret", {})
            d_wrap = {"float": float, "np": np.float64, "arr1": lambda x: np.array([x])}[ret.get("dist", "float")]
            c_wrap = {"bool": bool, "npbool": np.bool_, "arr0": lambda x: np.array(x)}[ret.get("coll", "bool")]

            def w_dist(a, b):
                d = dfun(pos6(a), pos6(b))
                run._rec_dist(a, b, d)
                return d_wrap(d)        # callers' distance functions return numpy scalars / one-element arrays too

            def w_coll(a, b):
                res = cfun(pos6(a.getPosition()), pos6(b.getPosition()))
                run._rec_coll(a, b, res)
                return c_wrap(res)      # ... and detectors built on np.any() return numpy bools
            call = lambda: pl.findPathGeneral(lambda: pl.generalGenerateTree(gen, w_dist, w_coll), run.goal)

        # running invariant at the moment of insertion (the R-tree pickles the node: this is what it freezes)
        graph = pl.r6_tree_graph
        real_place = graph.place

        def place(node):
            run._on_place(node)
            return real_place(node)
        graph.place = place

        # one planner, one or two calls: the second call (another goal, another budget) re-uses and extends the tree
        phases = [(cfg["iterations"], self.goal)]
        extra = [cfg[k_] for k_ in ("second", "third") if cfg.get(k_)]
        for ex in extra:
            phases.append((ex["iterations"], ex))        # the goal of a later call may refer to the tree built so far
        self.total_iters = 0
        self._log_mark = 0
        self._tree = [self.origin6]
        self._arr = np.array([self.origin6])
        self._accepted = []
        last_path = last_goal = None
        for ph, (n_it, goal) in enumerate(phases):
            if isinstance(goal, dict):
                if goal.get("goal_from_node") is not None and len(self._tree) > 1:
                    # re-planning to a way-point read back from a log: a tree node's pose rounded to a few decimals
                    src_ = self._tree[1 + goal["goal_from_node"]["index"] % (len(self._tree) - 1)]
                    goal = tm([round(x, goal["goal_from_node"]["decimals"]) for x in src_])
                    self.probes["goal_is_rounded_tree_node"] += 1
                else:
                    goal = tm(list(goal["goal"]))
            self.goal = goal
            pl.iterations = n_it
            if ph:
                rep = extra[ph - 1].get("replace_box")
                if rep and cfg["mode"] == "builtin" and pl.obstructions:
                    # a moved obstacle: same list object, same length
                    pl.obstructions.pop()
                    pl.addObstruction(list(rep[0]), list(rep[1]))
                    self.declared.pop()
                    self.declared.append((tuple(float(x) for x in rep[0]), tuple(float(x) for x in rep[1])))
                    self.box_list = list(self.declared)
                    self.epoch += 1
                    self.probes["obstruction_replaced_between_calls"] += 1
                for what in extra[ph - 1].get("mutate", ()):
                    # the caller re-uses ITS objects between two calls: the start pose it constructed the planner with,
                    # the way-points it got back, the previous goal -- none of this may move the tree
                    objs = {"origin": [self.origin_tm], "path": list(last_path or [])[:-1], "goal": [last_goal]}[what]
                    for o_ in objs:
                        try:
                            o_.TAA[0, 0] += 0.77
                            o_.TAA[4, 0] -= 0.31
                            o_.TAAtoTM()
                        except Exception:
                            pass
                    self.probes["caller_edited_its_" + what] += 1
                self.rnd.budget += 200 * n_it + 600
                pp.random = self.rnd
                self.probes["second_call_on_same_planner"] += 1
            old = sys.stdout
            sys.stdout = null = _Null()
            try:
                try:
                    path = call()
                finally:
                    sys.stdout = old
                    null.close()
                    pp.random = _load()["real_random"]
                    self.consumed = list(self.rnd.consumed)
            except (HarnessError, Inconclusive, Violation):
                raise
            except Exception as e:      # the planner raised
                raise Violation("T-return", "planner raised %s: %s (iterations=%d%s)" % (
                    type(e).__name__, e, n_it, ", second call" if ph else ""),
                    {"exception": type(e).__name__, "iterations": n_it})
            self.total_iters += n_it
            self.steps_done = self.total_iters
            self._check_history(path)
            last_path, last_goal = path, goal
        return self

    # ---- running invariant ---------------------------------------------------------
    def _on_place(self, node):
        p = pos6(node.getPosition())
        self.log.add("place", p)
        if getattr(self, "_cur_sample", None) == p and self._cur_units and len(self._cur_units) == 6:
            self.accepted_units.append(self._cur_units)
        self.node_list.append(p)
        par = node.getParent()
        if par is None:
            # connected after insertion (possible only on a store that keeps references): nothing to check *now*;
            # the final tree is checked as a whole (T1: exactly one parent-less node there)
            self.probes["placed_before_connected"] += 1
            return
        pp6 = pos6(par.getPosition())
        self.at_insert[p] = (pp6, fl(node.getCost()))
        d = self.pure_dist(p, pp6)
        nc, pc = fl(node.getCost()), fl(par.getCost())
        if not (math.isfinite(nc) and math.isfinite(pc)) or abs(nc - (pc + d)) > 1e-9 * max(1.0, abs(nc)):
            raise Violation("T3", "at insertion: cost %r != parent cost %r + distance %r" % (nc, pc, d),
                            {"when": "insertion"})
        self.node_epoch[p] = self.epoch
        if self.pure_coll(p, pp6) or self.clear_cut_collision(p, pp6):
            raise Violation("T4", "at insertion: edge %r -> %r %s" % (
                p, pp6, "collides under the supplied detector" if self.pure_coll(p, pp6) else
                "passes through the interior of a current obstruction (the planner's own predicate says free)"),
                {"when": "insertion"})
        seen = 0
        x = node
        while x.getParent() is not None:
            x = x.getParent()
            seen += 1
            if seen > len(self.node_list) + 1:
                raise Violation("T2", "at insertion: parent chain of %r does not terminate" % (p,), {"when": "insertion"})
        if pos6(x.getPosition()) != self.origin6:
            raise Violation("T2", "at insertion: parent chain of %r ends at %r, not at the root" % (p, pos6(x.getPosition())),
                            {"when": "insertion"})

    # ---- history oracle -----------------------------------------------------------------
    def _check_history(self, path):
        cfg = self.cfg
        pl = self.planner
        graph = pl.r6_tree_graph
        n_iter = self.total_iters          # all calls made on this planner so far
        items = graph.getAll()
        nodes = [it.object for it in items]
        P = self.probes
        # T8 size
        if len(nodes) != n_iter + 1 or graph.count != n_iter + 1:
            raise Violation("T8", "tree holds %d nodes (count=%d), expected iterations+1 = %d" % (
                len(nodes), graph.count, n_iter + 1), {})
        pos = [pos6(n.getPosition()) for n in nodes]
        bypos = {}
        for n, p in zip(nodes, pos):
            if p in bypos:
                raise Violation("T5", "two tree nodes at the same pose %r (a sample at distance 0 < minimum was accepted)" % (p,), {})
            bypos[p] = n
        # the index must enumerate exactly what was inserted into it (recorded at place(), independently of getAll())
        placed = [self.origin6] + [e[1] for e in self.log.events if e[0] == "place"]
        if sorted(placed) != sorted(pos):
            gone = [p_ for p_ in placed if p_ not in bypos]
            raise Violation("T8", "the index enumerates %d nodes but %d were inserted; e.g. inserted and not enumerated: %r" % (
                len(pos), len(placed), gone[:1]), {})
        # T1 root
        roots = [p for n, p in zip(nodes, pos) if n.getParent() is None]
        if len(roots) != 1 or roots[0] != self.origin6:
            raise Violation("T1", "parent-less nodes: %r; start pose %r" % (roots[:3], self.origin6), {})
        parent = {}
        cost = {}
        for n, p in zip(nodes, pos):
            cost[p] = fl(n.getCost())
            par = n.getParent()
            parent[p] = None if par is None else pos6(par.getPosition())
        for p_, c_ in cost.items():
            if not math.isfinite(c_):
                raise Violation("T3", "node %r stores the cost %r" % (p_, c_), {})
        for p in pos:
            q = parent[p]
            if q is None:
                continue
            if q not in bypos:
                raise Violation("T2", "parent %r of %r is not a tree node" % (q, p), {})
            # T3 cost (and the frozen parent snapshot agrees with the parent's own record)
            snap = fl(bypos[p].getParent().getCost())
            if abs(snap - cost[q]) > REL * max(1.0, abs(cost[q])):
                raise Violation("T3", "node %r believes its parent costs %r, the parent's own record says %r" % (p, snap, cost[q]), {})
            d = self.pure_dist(p, q)
            if abs(cost[p] - (cost[q] + d)) > REL * max(1.0, abs(cost[p])):
                raise Violation("T3", "cost(%r)=%r but parent cost %r + distance %r = %r" % (p, cost[p], cost[q], d, cost[q] + d), {})
            # T4 edges (links made before the obstruction set was last changed are not re-judged against the new set)
            if self.node_epoch.get(p, self.epoch) == self.epoch and (self.pure_coll(p, q) or self.clear_cut_collision(p, q)):
                raise Violation("T4", "edge %r -> %r collides under the %s" % (
                    p, q, "supplied detector" if self.pure_coll(p, q) else "current obstruction set (clear-cut interior crossing)"), {})
        # T2 reachability without cycles
        for p in pos:
            x = p
            for _ in range(len(pos) + 1):
                if parent[x] is None:
                    break
                x = parent[x]
            else:
                raise Violation("T2", "parent links from %r never reach the root (cycle)" % (p,), {})
        # ... and through each stored node's OWN parent objects (every node is stored with a private copy of its ancestry, and
        # that chain is what findPath walks): it must be the same chain of poses, link by link, up to the root
        for n, p in zip(nodes, pos):
            x, xp, hops = n, p, 0
            while x.getParent() is not None:
                x = x.getParent()
                hops += 1
                if hops > len(pos) + 1 or pos6(x.getPosition()) != parent[xp]:
                    raise Violation("T2", "the parent objects stored with %r lead, after %d links, to %r; the tree's parent links lead to %r" % (
                        p, hops, pos6(x.getPosition()), parent[xp]), {})
                xp = parent[xp]
            if parent[xp] is not None:
                raise Violation("T2", "the parent objects stored with %r end after %d links at %r, which is not the root (the tree's "
                                "parent links go on to %r)" % (p, hops, xp, parent[xp]), {})
        # ---- insertion-order replay (T5, T6) -------------------------------------------------
        segs = []
        new_events = self.log.events[self._log_mark:]      # what this call added to the log
        self._log_mark = len(self.log.events)
        for ev in new_events:
            if ev[0] == "gen":
                segs.append([ev[1], []])
            elif segs:
                segs[-1][1].append(ev)
        tree = self._tree                                   # continues where the previous call on this planner stopped
        arr = self._arr
        accepted = self._accepted
        kmax = cfg["k"]
        classes = self.transitions
        have_place = any(ev[0] == "place" for ev in new_events)
        rewired = set()
        for p_, (pp_, c_) in self.at_insert.items():
            if p_ in cost and (parent.get(p_) != pp_ or abs(cost[p_] - c_) > REL * max(1.0, abs(c_))):
                rewired.add(p_)
        if rewired:
            P["nodes_rewired_after_insertion"] += len(rewired)
        for s, evs in segs:
            acc = False
            n0 = None
            d0 = None
            placed = any(e[0] == "place" and e[1] == s for e in evs)
            if placed:
                # what happens after the sample has been inserted (path extraction ...) is not part of its insertion
                evs = evs[:next(i for i, e in enumerate(evs) if e[0] == "place" and e[1] == s) + 1]
            # call-backs that involve this sample, whatever the argument order (both are symmetric functions); anything
            # else in the segment (path extraction after the last insertion, ...) is not about this insertion
            evs = [e if e[1] == s else (e[0], e[2], e[1], e[3]) for e in evs
                   if e[0] != "place" and (e[1] == s or e[2] == s)]
            if evs and evs[0][0] in ("dist", "coll") and evs[0][1] == s:
                # the node this sample was tested against first (whatever the order of the two tests)
                n0 = evs[0][2]
                d0 = next((e[3] for e in evs if e[0] == "dist" and e[2] == n0), None)
            if have_place:
                # the planner inserted this sample (observed at the index's place()): that is what "accepted" means
                acc = placed and n0 is not None
                if placed and n0 is None:
                    raise Violation("T5", "sample %r was inserted without being measured against any tree node" % (s,), {})
            elif evs and evs[0][0] == "dist" and len(evs) > 1 and evs[1][0] == "coll" and evs[1][1] == s \
                    and evs[1][2] == n0 and evs[1][3] is False:
                acc = True          # fallback when insertion bypasses R6Tree.place: read acceptance from the call log
            if not acc:
                if d0 is not None:
                    if d0 > cfg["max"]:
                        P["rejected_for_max"] += 1
                    elif d0 < cfg["min"]:
                        P["rejected_for_min"] += 1
                        if d0 == 0.0:
                            P["rejected_exact_duplicate"] += 1
                    elif len(evs) > 1 and evs[1][0] == "coll" and evs[1][3] is True:
                        P["rejected_for_collision"] += 1
                continue
            # ---- accepted sample s
            if s not in bypos:
                raise Violation("T8", "sample %r passed the acceptance test but is not in the tree" % (s,), {})
            diff = arr - np.array(s)
            e2 = np.einsum("ij,ij->i", diff, diff)
            emin = float(e2.min())
            tol2 = emin * (1 + 4 * REL) + 1e-300
            ties = [tree[i] for i in np.nonzero(e2 <= tol2)[0]]
            if n0 not in tree:
                raise Violation("T5", "sample %r was measured against %r, which is not a tree node at that time" % (s, n0), {})
            if n0 not in ties:
                raise Violation("T5", "sample %r was tested against %r (6-D distance %.9g) but the nearest tree node is %r (%.9g)" % (
                    s, n0, math.sqrt(float(e2[tree.index(n0)])), ties[0], math.sqrt(emin)), {})
            if len(ties) > 1:
                P["tie_in_first_nearest"] += 1
            dd = self.pure_dist(s, n0)
            if not (cfg["min"] <= dd <= cfg["max"]):
                raise Violation("T5", "accepted sample %r lies at distance %r from its then-nearest node, outside [%r, %r]" % (
                    s, dd, cfg["min"], cfg["max"]), {"d": dd})
            # examined set
            examined = []
            for ev in evs:
                if ev[2] not in examined:
                    examined.append(ev[2])
            for c in examined:
                if c not in tree:
                    raise Violation("T6", "inserting %r examined %r, which is not a tree node at that time" % (s, c), {})
            k = min(kmax, len(tree))
            srt = np.sort(e2)
            dk = float(srt[k - 1])
            strict = set(tree[i] for i in np.nonzero(e2 < dk * (1 - 4 * REL) - 1e-300)[0])
            loose = set(tree[i] for i in np.nonzero(e2 <= dk * (1 + 4 * REL) + 1e-300)[0])
            exs = set(examined)
            # Which neighbours must be examined is not part of the statement ("cheapest ... among the neighbours
            # examined"): a planner may skip a neighbour that cannot win, or use a radius.  Recorded, not alarmed.
            if not strict <= exs:
                P["k_nearest_not_all_examined"] += 1
            if not exs <= loose:
                P["examined_beyond_k_nearest"] += 1
            if len(loose) > k:
                P["tie_at_kth_neighbour"] += 1
            if kmax > len(tree):
                P["k_exceeds_tree_size"] += 1
            # cheapest free candidate
            # (the then-nearest node is one of the examined; the statement does not say that the edge to it is
            #  free -- only that the final parent link is -- so it competes like every other candidate)
            best = None
            best_c = []
            any_collided = False
            for c in examined:
                v = cost[c] + self.pure_dist(s, c)
                free = not self.pure_coll(s, c)
                if v < cost[n0] + dd and not free:
                    any_collided = True
                if free:
                    if best is None or v < best - REL * max(1.0, abs(best)):
                        best, best_c = v, [c]
                    elif abs(v - best) <= REL * max(1.0, abs(best)):
                        best_c.append(c)
            if best is None:
                raise Violation("T4", "node %r was inserted although the edge to every examined neighbour collides" % (s,), {})
            # parent and cost as they were when the node was inserted (a later, legitimate re-wiring may change them)
            par_s, cost_s = self.at_insert.get(s, (parent[s], cost[s]))
            if any(c in rewired for c in examined):
                # a candidate's cost at that moment is not what the final tree says: the insertion cannot be re-judged
                # (the final tree's own consistency, T1-T4, is still checked in full)
                P["insertion_not_rejudged_after_rewire"] += 1
                tree.append(s)
                arr = np.vstack([arr, np.array(s)])
                accepted.append(s)
                continue
            if abs(cost_s - best) > REL * max(1.0, abs(best)):
                raise Violation("T6", "node %r was inserted with cost %r via parent %r; the cheapest collision-free examined candidate gives %r via %r" % (
                    s, cost_s, par_s, best, best_c[0]), {})
            if par_s not in best_c:
                raise Violation("T6", "node %r was attached to %r; cheapest collision-free examined candidate is %r (cost %r)" % (
                    s, par_s, best_c[0], best), {})
            if par_s != n0:
                P["parent_not_nearest"] += 1
            if any_collided:
                P["cheaper_candidate_collides"] += 1
            classes.add(digest_int((min(len(examined), 8), par_s == n0, any_collided, len(ties) > 1,
                                    cfg["dmode"], cfg["mode"])))
            tree.append(s)
            arr = np.vstack([arr, np.array(s)])
            accepted.append(s)
        self._arr = arr
        if set(accepted) != set(pos) - {self.origin6} or len(accepted) != n_iter:
            extra = [p for p in pos if p != self.origin6 and p not in set(accepted)]
            raise Violation("T5", "%d tree nodes never passed the acceptance test (range + free first edge), e.g. %r; "
                            "%d accepted samples for %d iterations" % (len(extra), extra[:1], len(accepted), n_iter), {})
        # ---- T7 path
        if path is None or len(path) < 2:
            raise Violation("T7", "path %r" % (path,), {})
        if path[-1] is not self.goal and pos6(path[-1]) != pos6(self.goal):
            raise Violation("T7", "path does not end with the goal", {})
        chain = [pos6(x) for x in path[:-1]]
        if chain[0] != self.origin6:
            raise Violation("T7", "path starts at %r, not at the start pose %r" % (chain[0], self.origin6), {})
        for a, b in zip(chain, chain[1:]):
            if parent.get(b, "absent") != a:
                raise Violation("T7", "path step %r -> %r is not a parent link of the tree" % (a, b), {})
        arr_all = np.array(pos)
        g = np.array(pos6(self.goal))
        diff = arr_all - g
        e2 = np.einsum("ij,ij->i", diff, diff)
        emin = float(e2.min())
        near = set(pos[i] for i in np.nonzero(e2 <= emin * (1 + 4 * REL) + 1e-300)[0])
        if chain[-1] not in near:
            # the statement does not say from which node the path leaves the tree (recorded)
            P["path_exit_node_not_nearest_goal"] += 1
        if len(chain) == 1:
            P["path_goal_nearest_root"] += 1
        if len(chain) >= 4:
            P["path_depth_ge4"] += 1
        if len(chain) >= 14:
            P["path_depth_ge14"] += 1
        if len(chain) >= 30:
            P["path_depth_ge30"] += 1
        if len(chain) >= 100:
            P["path_depth_ge100"] += 1
        if len(chain) >= 257:
            P["path_depth_ge257"] += 1
        if cfg["iterations"] == 1 and n_iter == 1:
            P["iterations_1"] += 1
        if cfg["iterations"] == 2 and n_iter == 2:
            P["iterations_2"] += 1
        if cfg.get("terrain"):
            P["terrain_generated"] += 1
        if cfg["mode"] == "custom":
            P["custom_callbacks"] += 1
        else:
            P["builtin_pipeline"] += 1
        if cfg["dmode"] == 1:
            P["arc_distance_mode"] += 1
        depth = {}
        for p in pos:
            x, dpt = p, 0
            while parent[x] is not None:
                x = parent[x]
                dpt += 1
            depth[p] = dpt
        if depth and max(depth.values()) >= 100:
            P["tree_depth_ge100"] += 1
        if depth and max(depth.values()) >= 257:
            P["tree_depth_ge257"] += 1
        hist = tuple(sorted(__import__("collections").Counter(depth.values()).items()))
        self.states.add(digest_int(hist))
        self.n_nontrivial = 1 if n_iter >= 2 else 0


def execute(trace, keep_log=False, collect=True):
    run = RRTRun(trace, keep_log=keep_log)
    try:
        run.run()
    except Violation as v:
        return run, v
    return run, None


# --------------------------------------------------------------------------- generator

def _rand_box(r, B, origin, size_max):
    for _ in range(20):
        c = [r.uniform(-B, B) for _ in range(3)]
        h = [r.uniform(0.1, size_max) for _ in range(3)]
        L = [c[i] - h[i] for i in range(3)]
        R = [c[i] + h[i] for i in range(3)]
        if not all(L[i] - 0.3 <= origin[i] <= R[i] + 0.3 for i in range(3)):
            return [[round(x, 4) for x in L], [round(x, 4) for x in R]]
    return None


def gen_trace(seed):
    r = stream(seed, "cfg")
    mode = r.choice(["builtin", "custom"])
    B = r.choice([2.0, 5.0, 10.0])
    rot = r.choice([2 * math.pi, 1.0, 0.0]) if mode == "custom" else r.choice([2 * math.pi, 1.0, 1.0, 0.0])
    bounds = [[-B, B]] * 3 + [[-rot, rot]] * 3
    if r.random() < 0.25:
        # per-axis, asymmetric sampling bounds (the start pose stays inside them)
        bounds = [[round(-B * r.uniform(0.3, 1.0), 3), round(B * r.uniform(0.3, 1.0), 3)] for _ in range(3)] + [[-rot, rot]] * 3
    origin = [0.0] * 6 if r.random() < 0.4 else [round(r.uniform(bounds[i][0] / 2, bounds[i][1] / 2), 3) for i in range(3)] + [
        round(r.uniform(-rot / 2, rot / 2), 3) for _ in range(3)]
    if origin != [0.0] * 6 and r.random() < 0.3:
        # the start pose is not a sample: it may carry an orientation outside (or with collapsed rotation bounds, unlike) anything drawn
        origin = origin[:3] + [round(r.uniform(-1.5, 1.5), 3) for _ in range(3)]
    iters = pick_weighted(r, [(1, 0.6), (2, 0.6), (r.randint(3, 10), 3.0), (r.randint(11, 60), 4.0),
                              (r.randint(61, 150), 1.2), (r.randint(151, 400), 0.3)])
    dmin = r.choice([0.01, 0.1, 0.1, 0.5, 1.0])
    dmax = r.choice([1.5, 3.0, 10.0, 100.0, 100.0])
    if dmax < 2.5 * dmin:
        dmax = 100.0
    script = {"uniform": 6.0}
    style = pick_weighted(r, [("plain", 3.0), ("mixed", 4.0), ("lattice", 2.0), ("adversarial", 2.0), ("chain", 1.5)])
    if style == "mixed":
        script.update({"edge": 0.5, "near": 1.0, "duplicate": 0.5, "far": 0.3, "into": 1.0})
    elif style == "lattice":
        script = {"lattice": 6.0, "uniform": 1.0, "duplicate": 0.5}
        dmax = 100.0
    elif style == "chain":
        # long chains: small connection distance, steps from the newest node, few neighbours -> trees 10-100 levels deep
        script = {"near_last": 8.0, "uniform": 0.5}
        dmin = r.choice([0.05, 0.1])
        dmax = r.choice([0.6, 1.0, 1.5])
        iters = r.randint(20, 160)
        if r.random() < 0.04:
            # a marathon chain: every step from the newest node, only the nearest neighbour examined, the whole budget of 400
            # iterations -- branches hundreds of links deep (anything that caps, trims or recurses over the ancestry shows
            # only here; one such run costs 10-20 s, hence rare)
            script = {"march": 1.0, "marathon": 0.0}
            iters = r.randint(300, 400)
            dmin = 0.05
            dmax = r.choice([1.0, 1.5])
    elif style == "adversarial":
        script = {"uniform": 2.0, "near": 3.0, "duplicate": 1.5, "into": 3.0, "edge": 1.0, "lattice": 1.0}
    cfg = {"mode": mode, "origin": origin, "bounds": bounds, "min": dmin, "max": dmax,
           "k": (pick_weighted(r, [(1, 2.0), (2, 2.0), (3, 1.0)]) if style == "chain" else
                 pick_weighted(r, [(1, 1.0), (2, 1.0), (r.randint(3, 8), 3.0), (15, 2.0), (r.randint(9, 20), 2.0)])),
           "dmode": 0, "iterations": iters, "script": script, "grid": r.choice([3, 4, 5]), "style": style,
           "goal": [round(r.uniform(-B, B), 3) for _ in range(3)] + [round(r.uniform(-rot, rot), 3) if rot else 0.0 for _ in range(3)]}
    n_boxes = pick_weighted(r, [(0, 2.0), (r.randint(1, 4), 4.0), (r.randint(5, 12), 2.0)])
    if "marathon" in script:
        cfg["k"] = 1
        cfg["marathon"] = True
        n_boxes = 0          # nothing in the way of the march
    boxes = []
    for _ in range(n_boxes):
        b = _rand_box(r, B, origin, B / 3)
        if b:
            boxes.append(b)
    if mode == "builtin":
        cfg["dmode"] = 1 if r.random() < 0.35 else 0
        cfg["boxes"] = boxes
        cfg["box_decl"] = r.choice(["list", "list", "tm", "tm_scratch"])
        if r.random() < 0.15 and not cfg.get("marathon"):
            # terrain: blocks of xc x yc from z=0.1 up to a drawn height; keep the start pose above it
            xc = r.choice([1.0, 2.0])
            nx, ny = r.randint(1, 3), r.randint(1, 3)
            zvar = r.choice([0.5, 1.0])
            cfg["terrain"] = [nx * xc, ny * xc, xc, xc, zvar, -B / 2, -B / 2]
            cfg["origin"] = list(origin)
            cfg["origin"][2] = round(zvar + 0.6 + abs(origin[2]) * 0.2, 3)
            if cfg["origin"][2] > B:
                cfg["origin"][2] = B
        if cfg["dmode"] == 1 and dmax < 20:
            if style == "chain":
                cfg["dmode"] = 0
            else:
                cfg["max"] = 100.0       # arc distance includes rotation error
    else:
        ck = pick_weighted(r, [("boxes", 4.0), ("spheres", 2.0), ("halfspace", 1.0), ("none", 1.0)])
        if cfg.get("marathon"):
            ck = "none"
        if ck == "boxes":
            coll = {"kind": "boxes", "boxes": boxes}
        elif ck == "spheres":
            sph = []
            for _ in range(r.randint(1, 6)):
                c = [round(r.uniform(-B, B), 3) for _ in range(3)]
                rad = round(r.uniform(0.2, B / 3), 3)
                if d_euclid3(c, origin) > rad + 0.3:
                    sph.append([c, rad])
            coll = {"kind": "spheres", "spheres": sph}
        elif ck == "halfspace":
            coll = {"kind": "halfspace", "z": round(min(origin[2] - 0.5, -B / 2), 3)}
        else:
            coll = {"kind": "none"}
        dist = r.choice(["euclid3", "euclid6", "weighted", "manhattan"])
        if rot == 0.0 and dist in ("euclid6", "weighted"):
            dist = "euclid3"
        cfg["custom"] = {"dist": dist, "coll": coll, "planar": rot == 0.0 or r.random() < 0.3,
                         "ret": {"dist": r.choice(["float", "float", "np", "arr1"]),
                                 "coll": r.choice(["bool", "npbool", "npbool", "arr0"])}}
        if dist in ("euclid6", "weighted") and cfg["max"] < 20:
            if style == "chain":
                cfg["custom"]["dist"] = "euclid3"
            else:
                cfg["max"] = 100.0
    if r.random() < 0.25:
        # the same planner asked again: another goal, usually a much smaller budget (coarse run, then a short refinement)
        cfg["second"] = {"iterations": pick_weighted(r, [(1, 1.0), (2, 2.0), (3, 2.0), (r.randint(4, 12), 2.0), (r.randint(13, 60), 1.0)]),
                         "goal": [round(r.uniform(-B, B), 3) for _ in range(3)] + [round(r.uniform(-rot, rot), 3) if rot else 0.0 for _ in range(3)]}
    if cfg.get("second") and r.random() < 0.4:
        cfg["second"]["mutate"] = sorted(r.sample(["origin", "path", "goal"], r.randint(1, 3)))
    if cfg.get("second") and r.random() < 0.3:
        cfg["second"]["goal_from_node"] = {"index": r.randrange(1000), "decimals": r.choice([5, 5, 6, 12])}
    if r.random() < 0.03:
        # a tiny first move: the goal is the start pose turned in place by 5e-5 rad
        cfg["goal"] = list(cfg["origin"])
        cfg["goal"][5] = cfg["origin"][5] + 5e-5
    if cfg.get("second") and r.random() < 0.3:
        cfg["third"] = {"iterations": r.randint(1, 6),
                        "goal": [round(r.uniform(-B, B), 3) for _ in range(3)] + [round(r.uniform(-rot, rot), 3) if rot else 0.0 for _ in range(3)]}
    if cfg.get("second") and mode == "builtin" and cfg.get("boxes") and r.random() < 0.5:
        nb = _rand_box(r, B, cfg["origin"], B / 3)
        if nb:
            cfg["second"]["replace_box"] = nb
    cfg["budget"] = (40 if cfg.get("marathon") else 200) * iters + 600
    # what the call-backs cost in simulated time (own stream: the rest of the configuration is what it was before this existed):
    # mostly nothing; otherwise a collision checker of 0.1 ms .. 2 s per query and cheap-to-slowish distance / sampling
    rk = stream(seed, "clock")
    if rk.random() < 0.3:
        cfg["cost"] = {"coll": round(10 ** rk.uniform(-4, 0.3), 6), "dist": round(10 ** rk.uniform(-6, -2), 8),
                       "gen": round(10 ** rk.uniform(-6, -2), 8)}
    return {"property": PROP, "config": cfg, "draw_seed": seed}


# --------------------------------------------------------------------------- driver interface

LEVEL = "exploration"
HAS_CLOCK = True
TIERS = {
    "quick": {"runs": 6000, "wall": 80, "chunk": 25, "det_sample": 48, "min_wall": 60.0},
    "thorough": {"runs": 120000, "wall": 800, "chunk": 40, "det_sample": 96, "min_wall": 180.0},
}
RULE = ("One run = one planner execution (findPath with the built-in pipeline observed through instance-level wrappers, or "
        "findPathGeneral with harness-supplied pure generator/distance/collision call-backs) under a simulator-owned PRNG; "
        "configuration (bounds, start, goal, min/max connection distance, neighbour limit 1-20, distance mode, iterations 1-400, "
        "0-12 boxes / terrain / spheres / half-space, draw-script mixture) is drawn per run. Non-trivial iff iterations >= 2 and the "
        "run completed its history check; distinct = distinct event-log digest. states = distinct tree-shape hashes (depth "
        "histograms); transitions = distinct insertion classes (bucket(#examined), parent==nearest, cheaper candidate collided, "
        "tie seen, distance mode, call-back mode).")
REAL = ["pathplanner.RRTStar / R6Tree / PathNode", "rtree + libspatialindex (native)", "general.tm", "fsr.distance / fsr.arcDistance",
        "utilities.disp.progressBar"]
STUB = ["the name `random` inside pathplanner (dsim.simrandom.SimRandom)", "sys.stdout (null sink)",
        "the `time` names inside pathplanner / utilities.disp (virtual clock advanced by the call-back seams)",
        "custom mode: generator / distance / collision call-backs (pure functions of the harness)"]
ASSUMPTIONS = [
    "rtree pickles stored nodes: nodes are identified by their six pose floats; accepted samples are pairwise distinct because minimum distance > 0",
    "libspatialindex nearest() returns all ties; the oracle accepts any member of the brute-force tie set (relative 1e-9)",
    "termination is not part of the statement: a run that exhausts its draw budget is inconclusive, not a violation",
    "no network, disk or crash exists in this component and the unchanged planner reads no clock; the schedule is the PRNG draw sequence. "
    "The `time` names pathplanner and utilities.disp hold are nevertheless the simulator's (call-backs cost simulated time in 30 % of "
    "runs), so that a change which makes the tree depend on elapsed time is decided rather than invisible",
]
EXPECTED_PROBES = ["rejected_for_min", "rejected_for_max", "rejected_for_collision", "rejected_exact_duplicate",
                   "tie_in_first_nearest", "tie_at_kth_neighbour", "parent_not_nearest", "cheaper_candidate_collides",
                   "k_exceeds_tree_size", "terrain_generated", "iterations_1", "iterations_2", "path_goal_nearest_root",
                   "path_depth_ge4", "path_depth_ge14", "path_depth_ge30", "path_depth_ge100", "tree_depth_ge100", "tree_depth_ge257", "second_call_on_same_planner", "obstruction_replaced_between_calls", "goal_is_rounded_tree_node", "caller_edited_its_origin", "caller_edited_its_path", "custom_callbacks", "builtin_pipeline", "arc_distance_mode", "callbacks_cost_simulated_time"]


def warmup():
    from dsim import use_repo
    use_repo()
    _load()
    # compile the tm kernels once in the parent
    tr = gen_trace(1)
    tr["config"]["iterations"] = 3
    try:
        execute(tr)
    except Inconclusive:
        pass


def variants(trace, run):
    return []


def describe(trace):
    c = trace["config"]
    return {"mode": c["mode"], "iterations": c["iterations"], "k": c["k"], "min": c["min"], "max": c["max"],
            "dmode": c["dmode"], "boxes": len(c.get("boxes", [])), "terrain": c.get("terrain"),
            "custom": c.get("custom", {}).get("dist"), "collider": c.get("custom", {}).get("coll", {}).get("kind"),
            "script": c["script"], "origin": c["origin"], "goal": c["goal"], "second_call": c.get("second"),
            "draws": ("explicit list of %d" % len(trace["draws"])) if "draws" in trace else "generated from draw_seed %d" % trace["draw_seed"]}


def _explicit(trace):
    """Turn a search trace into an explicit-draw trace by running it once."""
    if "draws" in trace:
        return trace
    run = RRTRun(trace)
    try:
        run.run()
    except (Violation, Inconclusive):
        pass
    t = {"property": PROP, "config": dict(trace["config"]), "draws": list(run.consumed or run.rnd.consumed)}
    return t


def _still(trace, clause):
    try:
        _, v = execute(trace, collect=False)
    except (HarnessError, Inconclusive):
        return False
    return v is not None and v.clause == clause


def minimise(trace, clause, budget):
    import copy
    from dsim.shrink import ddmin
    tr = _explicit(trace)
    if not _still(tr, clause):
        return trace
    # fewest iterations (the run is a prefix of itself)
    lo, hi = 1, tr["config"]["iterations"]
    while lo < hi and budget.spend():
        mid = (lo + hi) // 2
        cand = copy.deepcopy(tr)
        cand["config"]["iterations"] = mid
        if _still(cand, clause):
            hi = mid
        else:
            lo = mid + 1
    cand = copy.deepcopy(tr)
    cand["config"]["iterations"] = hi
    if _still(cand, clause):
        tr = cand
    # fewer obstructions
    def boxes_of(t):
        c = t["config"]
        if c["mode"] == "builtin":
            return c.get("boxes", [])
        return c["custom"]["coll"].get("boxes", [])

    def with_boxes(t, bx):
        t = copy.deepcopy(t)
        if t["config"]["mode"] == "builtin":
            t["config"]["boxes"] = bx
        elif "boxes" in t["config"]["custom"]["coll"]:
            t["config"]["custom"]["coll"]["boxes"] = bx
        return t
    bx = boxes_of(tr)
    if bx:
        bx = ddmin(bx, lambda b: _still(with_boxes(tr, b), clause), budget)
        tr = with_boxes(tr, bx)
    # fewer samples: delete whole groups of six draws (terrain draws, if any, stay in front)
    head = 0
    if tr["config"].get("terrain"):
        t = tr["config"]["terrain"]
        head = int(t[0] / t[2]) * int(t[1] / t[3])
    body = tr["draws"][head:]
    groups = [body[i:i + 6] for i in range(0, len(body), 6)]

    def with_groups(gs):
        t = copy.deepcopy(tr)
        t["draws"] = tr["draws"][:head] + [u for g in gs for u in g]
        return t
    groups = ddmin(groups, lambda gs: _still(with_groups(gs), clause), budget)
    tr = with_groups(groups)
    # neighbour limit down, plain draws
    for k in (1, 2, 3):
        if k < tr["config"]["k"] and budget.spend():
            cand = copy.deepcopy(tr)
            cand["config"]["k"] = k
            if _still(cand, clause):
                tr = cand
                break
    # trim unused draws
    run = RRTRun(tr)
    try:
        run.run()
    except (Violation, Inconclusive):
        pass
    used = len(run.consumed or run.rnd.consumed)
    if used < len(tr["draws"]):
        cand = copy.deepcopy(tr)
        cand["draws"] = tr["draws"][:used]
        if _still(cand, clause):
            tr = cand
    return tr


def signature(trace, violation):
    c = trace["config"]
    return {"clause": violation.clause, "iterations": c["iterations"], "mode": c["mode"],
            "exception": violation.detail.get("exception"), "k": c["k"], "dmode": c["dmode"]}
