"""C19 -- message router: exactly-once fan-out per active rule, under receive faults.

Real code under simulation: basic_robotics.interfaces.comms_core.Comms (all of it),
comms_object.CommsObject, udp_bridge.UDPObject running on dsim.net.SimSocketModule.
Stubs: the socket module, in-memory endpoint doubles, remote peers, sinks, sources.

A run is a pure function of its trace:
  {"config": {...}, "steps": [...], "nodata": [global receive positions forced to yield no data]}
See DESIGN.md section 2.
"""
import functools
import os
import weakref
from collections import Counter, deque

from dsim import HarnessError, Violation
from dsim.net import SimClock, SimNet, SimSocket, SimSocketModule, WouldHangForever
from dsim.rng import stream, pick_weighted, log_uniform
from dsim.trace import EventLog, digest_int

PROP = "C19"
UNKNOWN = "Z"
NAMES = ["A", "AA", "AB", "B"]      # shared prefixes on purpose (keys built by concatenation would collide)
HUB_IP = "127.0.0.1"
PEER_IP = "127.0.0.9"               # datagrams from peers come from another address than the hub's own

_mods = {}


def _load():
    if not _mods:
        from basic_robotics.interfaces import comms_core, comms_object, udp_bridge
        _mods["core"] = comms_core
        _mods["obj"] = comms_object
        _mods["udp"] = udp_bridge
    return _mods


# --------------------------------------------------------------------------- doubles

def _make_mem_class():
    CommsObject = _load()["obj"].CommsObject

    class MemEndpoint(CommsObject):
        """In-memory double of the CommsObject interface."""

        def __init__(self, run, hub, name, link=None, label=None):
            # `name` is the key the hub knows this endpoint by; the endpoint's own label (CommsObject.name, getName())
            # is whatever its owner gave it and need not be that key
            super().__init__(label if label is not None else name, "MEM")
            self._key = name
            self._run = run
            self._hub = hub
            self._link = link
            self.inbox = []

        def openCom(self):
            self.open = True
            return True

        def closeCom(self):
            was = self.open
            self.open = False
            return was

        def sendData(self, data):
            if not self.open:
                # like UDPObject: a closed port drops what it is given (so a hub that skips closed destinations
                # itself is indistinguishable from one that hands them the message)
                self.last_tx_success = False
                self._run.faults["mem_send_closed"] += 1
                return False
            self._run.on_mem_send(self._hub, self._key, data)
            if self._link is not None and isinstance(data, str):
                tgt = self._run.hubs[self._hub].comms.endpoints.get(self._link)
                if tgt is not None and hasattr(tgt, "inbox") and len(tgt.inbox) < self._run.net.inbox_cap:
                    tgt.inbox.append(data + "'")   # the device echoes a *new* message
            self.last_tx_success = True
            return True

        def getData(self):
            net = self._run.net
            pos = net.next_recv_pos()
            if not self.open:
                v = None
                self._run.faults["mem_closed"] += 1
            elif pos in net.force_nodata:
                v = None
                self._run.faults["mem_nodata_forced"] += 1
                if self.inbox:
                    self._run.faults["held"] += 1
            elif not self.inbox:
                v = None
                self._run.faults["mem_empty"] += 1
            else:
                v = self.inbox.pop(0)
            self.last_rx_success = v is not None
            if v is not None:
                self.last_rx_data = v
            self._run.on_recv(self._hub, self._key, pos, v)
            return v

    return MemEndpoint


class SimTime:
    """Stand-in for the `time` module inside the interfaces package, should a change start using it: every clock
    reads the simulator's clock and sleeping advances it (nothing in the unchanged tree reads a clock there)."""

    def __init__(self, run):
        self._run = run

    def time(self):
        return 1.7e9 + self._run.clock.now

    def monotonic(self):
        return self._run.clock.now

    perf_counter = monotonic

    def time_ns(self):
        return int(self.time() * 1e9)

    def monotonic_ns(self):
        return int(self._run.clock.now * 1e9)

    def sleep(self, dt):
        self._run.probes["library_slept"] += 1
        self._run.clock.advance(max(0.0, float(dt)))

    def __getattr__(self, name):
        raise HarnessError("the code under test used time.%s, which the simulated clock does not model" % name)


_SIM_TIME_FUNCS = ("time", "monotonic", "perf_counter", "time_ns", "monotonic_ns", "sleep")


def _sim_time_fn(st, fname):
    m = getattr(st, fname)

    def f(*a, **k):
        return m(*a, **k)
    f._dsim_time = fname
    return f


class _Rec:
    """A sink or a source with a stable identity; several handle shapes."""

    def __init__(self, run, kind, hid, shape, values="unique"):
        self.run = run
        self.kind = kind
        self.hid = hid
        self.shape = shape
        self.values = values     # sources: "unique" (a fresh token per call), "const" (always c<hid>), "shared" (always "K")
        self.n = 0
        self._owner_ref = None
        if shape == "func":
            if kind == "sink":
                def f(v, _s=self):
                    _s.fire(v)
            else:
                def f(_s=self):
                    return _s.fire()
            self._h = f
        elif shape == "partial":
            self._h = functools.partial(_Rec.fire, self)
        elif shape == "builtin":
            # `received.append` / `pending.popleft`: bound methods of built-in objects.  Like Python-level bound methods they
            # are built afresh on each access and compare equal for the same object, but they are not types.MethodType, and
            # nothing can be hooked into them: what they did is read off the container after the hub call (collect()).
            self._h = None
            self._seen = 0
            if kind == "sink":
                self._box = []
            else:
                self._total = 0          # tokens put into the deque so far (topped up after every hub call)
                self._box = deque()
                self._top_up()
        else:
            self._h = None

    def fire(self, *a):
        if self.kind == "sink":
            self.run.on_sink(self.hid, a[0] if a else None)
            self.run.reenter(self.hid)
            # a sink is an arbitrary callable: what it returns (nothing, a flag, the message itself) is none of the hub's
            # business and must not influence the rest of the fan-out
            return {"none": None, "false": False, "true": True, "zero": 0, "echo": a[0] if a else None,
                    "text": "handled"}.get(self.values)
        self.n += 1
        # a sensor that reports the same reading every time, or two sensors that report the same reading, are sources like
        # any other: "each source's value once" is a statement about sources, not about distinct values
        v = {"const": "c%d" % self.hid, "shared": "K"}.get(self.values) or "s%d-%d" % (self.hid, self.n)
        self.run.on_source(self.hid, v)
        return v

    def _top_up(self, keep=64):
        # one hub call pops at most 12 iterations x 4 registrations
        while len(self._box) < keep:
            self._total += 1
            self._box.append({"const": "c%d" % self.hid, "shared": "K"}.get(self.values) or "s%d-%d" % (self.hid, self._total))

    def collect(self):
        """Built-in handles only: book what the container shows since the last look."""
        if self.shape != "builtin":
            return
        if self.kind == "sink":
            for v in self._box[self._seen:]:
                self.run.on_sink(self.hid, v)
            self._seen = len(self._box)
        else:
            popped = self._total - len(self._box)
            for i in range(self._seen, popped):
                self.n += 1
                v = {"const": "c%d" % self.hid, "shared": "K"}.get(self.values) or "s%d-%d" % (self.hid, i + 1)
                self.run.on_source(self.hid, v)
            self._seen = popped
            self._top_up()

    def handle(self):
        if self.shape == "builtin":
            return self._box.append if self.kind == "sink" else self._box.popleft
        if self.shape == "method":
            return self.fire          # a fresh bound-method object each time, == to the others
        if self.shape == "weakowner":
            # a bound method of an object that nothing but the registered method keeps alive (`hub.setDataSink('A',
            # Recorder(log).onMessage)`): the harness itself only holds a weak reference to the owner
            o = self._owner_ref() if self._owner_ref is not None else None
            if o is None:
                o = _Owner(self)
                self._owner_ref = weakref.ref(o)
            return o.call
        return self._h


class _Owner:
    def __init__(self, rec):
        self.rec = rec

    def call(self, *a):
        return self.rec.fire(*a)


class HubModel:
    """Reference model of one hub's rule tables."""

    def __init__(self, names):
        self.known = list(names)
        self.open = dict((n, False) for n in names)     # what the caller asked for through the hub's open/close calls
        self.fwd = {}
        self.sinks = {}
        self.sources = {}

    def set_forward(self, i, o):
        if i not in self.known or o not in self.known:
            return False
        lst = self.fwd.setdefault(i, [])
        if o in lst:
            return False
        lst.append(o)
        return True

    def del_forward(self, i, o):
        if o not in self.known:
            return False
        lst = self.fwd.get(i)
        if lst is None or o not in lst:
            return False
        lst.remove(o)
        return True

    def _reg(self, table, n, hid):
        if n not in self.known or hid is None:
            return False
        lst = table.setdefault(n, [])
        if hid in lst:
            return False
        lst.append(hid)
        return True

    def set_sink(self, n, hid):
        return self._reg(self.sinks, n, hid)

    def set_source(self, n, hid):
        return self._reg(self.sources, n, hid)


class _Hub:
    def __init__(self):
        self.comms = None
        self.cfg = None
        self.kinds = {}
        self.model = None


class _Ctx:
    __slots__ = ("recvs", "deliv", "srcs", "src_deliv", "lost", "mangled", "src_targets", "src_hid", "src_seen",
                 "nested_sends", "discarded", "src_prod")

    def __init__(self):
        self.recvs = []      # (hub, ep, pos, value or None)
        self.deliv = []      # ("mem"|"wire"|"sink", hub or -1, dest, value)   fan-out deliveries
        self.srcs = []       # (hid, value)
        self.src_deliv = []  # deliveries attributed to a source call
        self.lost = []       # (hub, endpoint, [datagrams read from the socket and then dropped inside the endpoint])
        self.mangled = []    # (hub, endpoint, read from the socket, handed to the hub)
        self.nested_sends = []   # (hub, endpoint, token) sent by a re-entrant sink
        self.discarded = []  # (hub, endpoint, [datagrams that had arrived and were thrown away with the socket])
        self.src_targets = {}    # hid -> set of (hub, endpoint) the source is registered on (model, at step start)
        self.src_hid = {}        # value produced by a source during this call -> hid (the last one that produced it)
        self.src_prod = {}       # hid -> Counter(value): what each source produced during this call
        self.src_seen = set()    # (hub, endpoint, value) already booked as a source delivery

    def add_delivery(self, d):
        self.deliv.append(d)


# --------------------------------------------------------------------------- executor

class RouterRun:
    def __init__(self, trace, keep_log=False):
        m = _load()
        self.trace = trace
        cfg = trace["config"]
        self.log = EventLog(keep=keep_log)
        self._make_net(cfg)
        self.net.force_nodata = frozenset(trace.get("nodata", ()))
        self.net.hook_recv = self._sock_recv
        self.net.hook_send = self._sock_send
        m["udp"].socket = self.sockmod
        for mod in (m["udp"], m["core"], m["obj"]):
            # only where the module itself imported `time` (then the name is looked up at call time, like `socket`)
            t_ = vars(mod).get("time")
            if isinstance(t_, SimTime) or (t_ is not None and type(t_).__name__ == "module" and t_.__name__ == "time"):
                mod.time = SimTime(self)
            # ... and where it imported single clock functions (`from time import monotonic [as _now]`)
            for k_, v_ in list(vars(mod).items()):
                tn_ = type(v_).__name__
                if isinstance(v_, SimTime) or (tn_ == "module" and v_.__name__ == "time"):
                    setattr(mod, k_, SimTime(self))      # `import time as _t`
                    continue
                if tn_ not in ("function", "builtin_function_or_method"):
                    continue
                fn_ = getattr(v_, "_dsim_time", None)
                if fn_ is None and tn_ == "builtin_function_or_method" \
                        and getattr(v_, "__module__", None) == "time" and v_.__name__ in _SIM_TIME_FUNCS:
                    fn_ = v_.__name__
                if fn_ is not None:
                    setattr(mod, k_, _sim_time_fn(SimTime(self), fn_))
        self.pool = {}            # (hub, endpoint) -> datagrams read from the socket and not yet handed to the hub
        self._sock_dry = set()
        self._depth = 0
        self._cur_hub = None
        self._reent_n = 0
        self.net.hook_close = self._sock_close
        self.faults = Counter()
        self.probes = Counter()
        self.states = set()
        self.transitions = set()
        self.ctx = _Ctx()
        self.n_data_recv = 0
        self.n_nontrivial = 0
        self.steps_done = 0
        Mem = _mem_class()
        self.hubs = []
        for hi, hc in enumerate(cfg["hubs"]):
            hub = _Hub()
            hub.cfg = hc
            hub.comms = m["core"].Comms()
            for e in hc["eps"]:
                if e["kind"] == "udp":
                    hub.comms.newComPort(e["n"], "UDP", HUB_IP, e["rx"], e["tx"], e["tau"])
                    obj = hub.comms.endpoints[e["n"]]
                    if "buf" in e:
                        obj.setBufferLen(e["buf"])
                    if e.get("label") is not None:
                        obj.setName(e["label"])      # public API: an endpoint's own label need not be its key in the hub
                    self._observe_endpoint(obj, hi, e["n"])
                else:
                    hub.comms.endpoints[e["n"]] = Mem(self, hi, e["n"], e.get("link"), e.get("label"))
                hub.kinds[e["n"]] = e
            hub.model = HubModel([e["n"] for e in hc["eps"]])
            self.hubs.append(hub)
        self.peers = {}
        self.peer_tx = {}
        for p in cfg.get("peers", []):
            s = self._make_peer_socket("peer:" + p["n"])
            s.settimeout(0.001)
            s.bind((HUB_IP, p["port"]))
            self.peers[p["n"]] = s
        shapes_k = cfg.get("sink_shapes", ["func", "method", "partial"])
        shapes_s = cfg.get("source_shapes", ["func", "method", "partial"])
        rets_k = cfg.get("sink_returns", ["none"] * 3)
        self.sink_recs = [_Rec(self, "sink", i, shapes_k[i % len(shapes_k)], rets_k[i % len(rets_k)]) for i in range(3)]
        vals_s = cfg.get("source_values", ["unique"] * 3)
        self.source_recs = [_Rec(self, "source", i, shapes_s[i % len(shapes_s)], vals_s[i % len(vals_s)]) for i in range(3)]

    # ---- backend (overridden by the real-socket fidelity run) ---------------------
    def _make_net(self, cfg):
        self.clock = SimClock()
        self.net = SimNet(self.clock, self.log, cfg.get("inbox_cap", 64))
        self.sockmod = SimSocketModule(self.net)

    def _make_peer_socket(self, label):
        return SimSocket(self.net, label)

    def _peer_sender(self, name):
        """The socket a peer transmits from: another source address than the hub's (PEER_IP)."""
        s = self.peer_tx.get(name)
        if s is None:
            s = self._make_peer_socket("peertx:%s" % name)
            if isinstance(s, SimSocket):
                s.addr = (PEER_IP, self.net.ephemeral())
                self.net.bound[s.addr] = s
            self.peer_tx[name] = s
        return s

    # ---- seams ---------------------------------------------------------------
    def _observe_endpoint(self, obj, hi, name):
        """Endpoint-level receive seam for real endpoints: a message is *received on the endpoint* when the endpoint's
        getData hands it out (an endpoint may buffer what it read from its socket)."""
        real = obj.getData
        run = self

        def getData(*a, **k):
            v = real(*a, **k)
            run.on_ep_return(hi, name, v)
            return v
        obj.getData = getData

    def _owner(self, sock):
        for hi, hub in enumerate(self.hubs):
            for n, obj in hub.comms.endpoints.items():
                if getattr(obj, "comm_handle", None) is sock:
                    return hi, n
        for hi, hub in enumerate(self.hubs):      # an endpoint may keep more than one socket (separate tx handle ...)
            for n, obj in hub.comms.endpoints.items():
                try:
                    if any(v is sock for v in vars(obj).values()):
                        return hi, n
                except TypeError:
                    pass
        return None

    def _sock_recv(self, sock, pos, data):
        own = self._owner(sock)
        if own is None:
            return
        if data is None:
            self.faults["udp_timeout"] += 1
            self.log.add("sock.nodata", own[0], own[1], pos)
            self._sock_dry.add(own)       # this endpoint looked at its socket and found nothing
            return
        v = data.decode("utf-8", "replace")
        self.pool.setdefault(own, []).append(v)
        self.log.add("sock.read", own[0], own[1], pos, v)

    def on_ep_return(self, hub, name, v):
        pend = self.pool.get((hub, name))
        dry = (hub, name) in self._sock_dry
        self._sock_dry.discard((hub, name))
        if v is not None:
            if pend and v in pend:
                pend.remove(v)
            elif pend:
                got = pend.pop(0)    # handed out in another form than it was read from the socket
                self.ctx.mangled.append((hub, name, got, v))
            else:
                self.probes["endpoint_returned_value_it_never_read"] += 1
        elif pend and dry:
            # the endpoint looked at its socket, found nothing more, and says "no data" -- while datagrams it has read
            # earlier were never handed out (an endpoint that buffers hands them out before it reports "no data")
            self.ctx.lost.append((hub, name, list(pend)))
            del pend[:]
        self.on_recv(hub, name, -1, v)

    def _sock_close(self, sock, pending):
        own = self._owner(sock) or getattr(sock, "_last_owner", None)
        if own is not None and pending:
            self.ctx.discarded.append((own[0], own[1], [d.decode("utf-8", "replace") for d in pending]))

    def _sock_send(self, sock, data, addr):
        own = self._owner(sock)
        if own is None:
            return
        self.ctx.add_delivery(("wire", own[0], own[1], (data.decode("utf-8", "replace"), (addr[0], addr[1]))))

    def on_recv(self, hub, name, pos, v):
        self.log.add("recv", hub, name, pos, v)
        self.ctx.recvs.append((hub, name, pos, v))
        if v is None:
            obj = self.hubs[hub].comms.endpoints[name]
            if hasattr(obj, "inbox"):
                self._held_vals.update(obj.inbox)
            elif obj.comm_handle is not None:
                self._held_vals.update(x[2].decode("utf-8", "replace") for x in obj.comm_handle.inbox)

    def on_mem_send(self, hub, name, data):
        self.log.add("mem.send", hub, name, data)
        self.ctx.add_delivery(("mem", hub, name, data))

    def on_sink(self, hid, v):
        self.log.add("sink", hid, v)
        self.ctx.add_delivery(("sink", -1, hid, v))

    def reenter(self, hid):
        """A sink may use the hub while it is being called (poll another endpoint, send something): the delivery in
        progress must not be disturbed.  Rule mutation from a call-back stays out of scope; nesting is one level deep."""
        spec = (self.trace["config"].get("sink_reenter") or [None, None, None])[hid]
        if not spec or self._depth > 0 or self._cur_hub is None:
            return
        self._depth += 1
        try:
            comms = self.hubs[self._cur_hub].comms
            self.probes["sink_reentered_hub"] += 1
            try:
                if spec["op"] == "get":
                    comms.getData(spec["n"])
                else:
                    self._reent_n += 1
                    tok = "r%d-%d" % (hid, self._reent_n)
                    self.ctx.nested_sends.append((self._cur_hub, spec["n"], tok))
                    comms.sendData(spec["n"], tok)
            except (Violation, HarnessError, WouldHangForever):
                raise
            except Exception as e:      # noqa -- reported through the delivery comparison of the outer call
                self.probes["exc_in_reentrant_sink_" + type(e).__name__] += 1
        finally:
            self._depth -= 1

    def on_source(self, hid, v):
        self.log.add("source", hid, v)
        self.ctx.srcs.append((hid, v))
        self.ctx.src_hid[v] = hid
        self.ctx.src_prod.setdefault(hid, Counter())[v] += 1

    # ---- helpers -------------------------------------------------------------
    def _handle(self, recs, hid):
        if hid is None:
            return None
        return recs[hid].handle()

    def _predict_for_recv(self, hub_i, name, v, opened):
        hub = self.hubs[hub_i]
        out = []
        for d in hub.model.fwd.get(name, ()):
            e = hub.kinds[d]
            if not opened[(hub_i, d)]:
                continue            # a closed destination drops the message (UDPObject and the doubles alike)
            if e["kind"] == "mem":
                out.append(("mem", hub_i, d, v))
            else:
                out.append(("wire", hub_i, d, (v, (HUB_IP, e["tx"]))))
        for hid in hub.model.sinks.get(name, ()):
            out.append(("sink", -1, hid, v))
        return out

    def _open_flags(self):
        flags = {}
        for hi, hub in enumerate(self.hubs):
            for n, obj in hub.comms.endpoints.items():
                flags[(hi, n)] = bool(obj.open)
        return flags

    def _ready_inputs(self, hi, opened):
        """Endpoints of hub hi that are open, have an active rule or sink as *input*, and hold a message that a
        receive attempt made now would return."""
        hub = self.hubs[hi]
        md = hub.model
        out = []
        for n in md.known:
            if not opened[(hi, n)] or not (md.fwd.get(n) or md.sinks.get(n)):
                continue
            obj = hub.comms.endpoints[n]
            if hub.kinds[n]["kind"] == "mem":
                if obj.inbox:
                    out.append(n)
            else:
                h = obj.comm_handle
                if h is not None and not h.closed and h.inbox and h.timeout and h.inbox[0][0] <= self.clock.now + h.timeout:
                    out.append(n)
        return out

    def abstract_state(self):
        parts = []
        for hi, hub in enumerate(self.hubs):
            md = hub.model
            for n in md.known:
                obj = hub.comms.endpoints[n]
                if hub.kinds[n]["kind"] == "mem":
                    occ = len(obj.inbox)
                else:
                    h = obj.comm_handle
                    occ = len(h.inbox) if (h is not None and not h.closed) else 0
                parts.append((hi, n, hub.kinds[n]["kind"][0], bool(obj.open), min(occ, 2),
                              tuple(md.fwd.get(n, ())), tuple(sorted(md.sinks.get(n, ()))),
                              tuple(sorted(md.sources.get(n, ())))))
        return tuple(parts)

    # ---- one step ------------------------------------------------------------
    def step(self, st):
        op = st["op"]
        hi = st.get("h", 0)
        if hi >= len(self.hubs):
            hi = 0
        hub = self.hubs[hi]
        comms = hub.comms
        md = hub.model
        self.net.set_fates(st.get("fates"))
        self.ctx = ctx = _Ctx()
        for n_, hids in md.sources.items():
            for hid_ in hids:
                ctx.src_targets.setdefault(hid_, set()).add((hi, n_))
        self.log.add("step", self.steps_done, op)
        opened = self._open_flags()
        self._cur_hub = hi
        self._ready = self._ready_inputs(hi, opened) if op == "spin" else ()
        before = self.abstract_state() if self.collect else None
        ret = None
        exc = None
        pred_ret = None
        is_reg = False
        try:
            if op == "fwd":
                is_reg = True
                pred_ret = md.set_forward(st["i"], st["o"])
                ret = comms.setForwardData(st["i"], st["o"])
            elif op == "unfwd":
                is_reg = True
                pred_ret = md.del_forward(st["i"], st["o"])
                ret = comms.deleteForwardingRule(st["i"], st["o"])
            elif op == "sink":
                is_reg = True
                pred_ret = md.set_sink(st["n"], st["hid"])
                ret = comms.setDataSink(st["n"], self._handle(self.sink_recs, st["hid"]))
            elif op == "source":
                is_reg = True
                pred_ret = md.set_source(st["n"], st["hid"])
                ret = comms.setDataSource(st["n"], self._handle(self.source_recs, st["hid"]))
            elif op == "get":
                ret = comms.getData(st["n"])
            elif op == "send":
                ret = comms.sendData(st["n"], st["tok"])
            elif op == "spin":
                ret = comms.spin(int(st["k"]))
            elif op == "open":
                ret = comms.openCom(st["n"])
            elif op == "close":
                ret = comms.closeCom(st["n"])
            elif op == "openall":
                ret = comms.openAll()
            elif op == "closeall":
                ret = comms.closeAll()
            elif op == "peer_send":
                p = self._peer_sender(st.get("p") or "anon")
                p.sendto(st["tok"].encode("utf-8"), (HUB_IP, st["port"]))
                self.probes["peer_send"] += 1
            elif op == "peer_drain":
                p = self.peers.get(st.get("p"))
                if p is not None:
                    p.inbox = []
            elif op == "inject":
                obj = comms.endpoints.get(st["n"])
                if obj is not None and hasattr(obj, "inbox") and len(obj.inbox) < self.net.inbox_cap:
                    obj.inbox.append(st["tok"])
            elif op == "idle":
                self.clock.advance(float(st["dt"]))
            else:
                raise HarnessError("unknown op %r" % (op,))
        except WouldHangForever as e:
            raise Violation("R-nodata-hang", "%s never returns: %s (a receive that yields no data must return)" % (op, e),
                            {"op": op})
        except Exception as e:      # noqa -- the system under test raised
            exc = e
        self.log.add("ret", repr(ret) if not isinstance(ret, (bool, type(None), str)) else ret,
                     type(exc).__name__ if exc else None, self.clock.now)
        self.steps_done += 1
        for rec_ in self.sink_recs + self.source_recs:
            rec_.collect()
        self._oracle(st, hi, ctx, opened, ret, exc, is_reg, pred_ret)
        if self.collect:
            after = self.abstract_state()
            self.states.add(digest_int(after))
            outcome = (type(exc).__name__ if exc else None, ret if is_reg else None,
                       sum(1 for r in ctx.recvs if r[3] is not None), min(len(ctx.deliv), 3))
            self.transitions.add(digest_int((_coarse(before), op, outcome)))

    collect = True

    # ---- oracle ----------------------------------------------------------------
    def _oracle(self, st, hi, ctx, opened, ret, exc, is_reg, pred_ret):
        op = st["op"]
        hub = self.hubs[hi]
        md = hub.model
        if is_reg:
            if exc is not None:
                raise Violation("R-reg", "%s raised %s: %s" % (op, type(exc).__name__, exc),
                                {"op": op, "exception": type(exc).__name__})
            if bool(ret) != pred_ret:       # "reports success": truthiness, so 1/0 or numpy bools would do
                raise Violation("R-reg", "%s%r returned %r, the rule set %s" % (
                    op, tuple(st.get(k) for k in ("i", "o", "n", "hid") if k in st), ret,
                    "changed" if pred_ret else "did not change"), {"op": op, "ret": repr(ret)})
            self._probe_reg(st, pred_ret)
            if ctx.deliv or ctx.recvs or ctx.srcs:
                raise Violation("R-fanout", "registration call %s caused traffic %r" % (op, ctx.deliv[:3]),
                                {"op": op})
            return
        if op not in ("get", "spin", "send"):
            # open/close/peer/idle: nothing may be delivered by the hub, but the statement is
            # silent about exceptions from open/close -> probe only
            if exc is not None:
                self.probes["exc_" + op + "_" + type(exc).__name__] += 1
            if op in ("open", "close", "openall", "closeall"):
                # "closed port" in the statement is the state the caller set through the hub: after openAll every
                # endpoint is open, after closeAll none is, open/close(name) affect exactly that endpoint
                if op == "openall":
                    for n in md.known:
                        md.open[n] = True
                elif op == "closeall":
                    for n in md.known:
                        md.open[n] = False
                elif st["n"] in md.known:
                    md.open[st["n"]] = (op == "open")
                if exc is not None:
                    for n in md.known:          # an open/close that raised: take the endpoints as they are
                        md.open[n] = bool(hub.comms.endpoints[n].open)
                else:
                    for n in md.known:
                        if bool(hub.comms.endpoints[n].open) != md.open[n]:
                            raise Violation("R-openclose", "after %s%s endpoint %s is %s" % (
                                {"open": "openCom", "close": "closeCom", "openall": "openAll", "closeall": "closeAll"}[op],
                                "(%r)" % st["n"] if "n" in st else "()", n,
                                "still open: a port the caller closed keeps receiving and delivering" if not md.open[n]
                                else "still closed: its registered destinations and sinks never see a message"), {"op": op})
                    self.probes["open_close_state_checked"] += 1
                # whatever the call did: an endpoint that says it is open must actually listen on its receive port
                for n in md.known:
                    e = hub.kinds[n]
                    obj = hub.comms.endpoints[n]
                    if e["kind"] == "udp" and obj.open and hasattr(self.net, "bound"):
                        sock = self.net.bound.get((HUB_IP, e["rx"]))
                        if sock is None or self._owner(sock) != (hi, n):
                            raise Violation("R-openclose", "after %s endpoint %s is marked open but nothing of it listens on its "
                                            "receive port %d: every datagram sent to it is lost%s" % (
                                                op, n, e["rx"], ("; the call raised %s" % type(exc).__name__) if exc else ""),
                                            {"op": op, "exception": type(exc).__name__ if exc else None})
            hub_deliv = [d for d in ctx.deliv]
            if op in ("open", "close", "openall", "closeall", "idle", "inject", "peer_drain") and hub_deliv:
                raise Violation("R-fanout", "%s delivered %r" % (op, hub_deliv[:3]), {"op": op})
            return

        # ---- predicted deliveries --------------------------------------------
        pred = Counter()
        data_recvs = [r for r in ctx.recvs if r[3] is not None]
        nodata_recvs = [r for r in ctx.recvs if r[3] is None]
        for (h, n, pos, v) in data_recvs:
            self.n_data_recv += 1
            outs = self._predict_for_recv(h, n, v, opened)
            if outs:
                self.n_nontrivial += 1
            for o in outs:
                pred[o] += 1
        obs_all = Counter(ctx.deliv)
        for (h_, n_, tok_) in ctx.nested_sends:
            if n_ in self.hubs[h_].model.known and opened[(h_, n_)]:
                e_ = self.hubs[h_].kinds[n_]
                pred[("mem", h_, n_, tok_) if e_["kind"] == "mem" else ("wire", h_, n_, (tok_, (HUB_IP, e_["tx"])))] += 1
        if op == "send":
            n = st["n"]
            if n in md.known:
                e = hub.kinds[n]
                if not opened[(hi, n)]:
                    pass
                elif e["kind"] == "mem":
                    pred[("mem", hi, n, st["tok"])] += 1
                else:
                    pred[("wire", hi, n, (st["tok"], (HUB_IP, e["tx"])))] += 1

        if ctx.discarded and op in ("get", "spin", "send"):
            h_, n_, vals = ctx.discarded[0]
            raise Violation("R-fanout", "endpoint %s closed its socket during %s and threw away %r, which had already arrived: "
                            "the message is delivered to nobody" % (n_, op, vals[:3]), {"op": op, "discarded": len(vals)})
        if ctx.mangled:
            h_, n_, got, gave = ctx.mangled[0]
            raise Violation("R-fanout", "endpoint %s read %r from its socket but handed %r to the hub: what is delivered is not "
                            "the message that was received" % (n_, got, gave), {"op": op})
        if ctx.lost:
            h_, n_, vals = ctx.lost[0]
            raise Violation("R-fanout", "endpoint %s read %r from its socket and never handed it to the hub (a later receive "
                            "yielded no data while it was pending): the message is delivered to nobody" % (n_, vals[:3]),
                            {"op": op, "lost": len(vals)})
        last_nodata = bool(ctx.recvs) and ctx.recvs[-1][3] is None
        no_recv_data = not data_recvs
        sig = {"op": op, "exception": type(exc).__name__ if exc else None}

        # What is left after taking the predicted fan-out out of the observed deliveries must be the source values of a
        # spin: a value produced by a source during this call, handed to an endpoint that source is registered on,
        # at most once per endpoint (one value may be shared by the endpoints of one handle; which of two equal
        # deliveries "is" the source one and which the forwarded copy does not matter for the counts).
        missing = pred - obs_all
        rest = obs_all - pred
        src_rest = Counter()
        extra = Counter()
        src_attr = {}       # delivery -> [(hid, count)]: which sources account for it
        for d, c in rest.items():
            val = d[3][0] if d[0] == "wire" else d[3]
            # every source registered on this endpoint that produced this value during the call accounts for as many
            # deliveries of it as it produced (values need not be unique: constant and equal sources exist)
            allowed = 0
            if op == "spin" and d[0] != "sink":
                for hid, prod in ctx.src_prod.items():
                    if (d[1], d[2]) in ctx.src_targets.get(hid, ()) and prod.get(val):
                        take = min(prod[val], int(st.get("k", 1)), c - allowed)     # one value per registration per iteration
                        if take > 0:
                            src_attr.setdefault(d, []).append((hid, take))
                            allowed += take
            if allowed:
                src_rest[d] += allowed
            if c > allowed:
                extra[d] += c - allowed
        obs = pred - missing + extra       # "observed" as far as the fan-out clauses are concerned
        ctx.src_deliv = list(src_rest.elements())

        # -- no-data clause: a receive attempt that yielded nothing must deliver nothing / raise nothing
        if missing or extra:
            none_extra = [d for d in extra if (d[3][0] if d[0] == "wire" else d[3]) is None]
            if none_extra or (no_recv_data and extra and op != "send"):
                raise Violation("R-nodata-deliver",
                                "a receive that yielded no data delivered %r" % (sorted(map(repr, extra))[:4],),
                                dict(sig, kinds=sorted(set(d[0] for d in extra))))
            if exc is not None and (last_nodata or (no_recv_data and op != "send")):
                raise Violation("R-nodata-raise", "no-data receive raised %s: %s" % (type(exc).__name__, exc), sig)
            if op == "send":
                if exc is not None:
                    # the statement does not say what a failing send does
                    self.probes["exc_send_" + type(exc).__name__] += 1
                    return
                raise Violation("R-send", "sendData(%r): expected %r, observed %r" % (
                    st["n"], sorted(map(repr, pred)), sorted(map(repr, obs))), sig)
            raise Violation("R-fanout", "received %r; missing deliveries %r; unexpected deliveries %r%s" % (
                [(r[1], r[3]) for r in data_recvs][:4], sorted(map(repr, missing))[:4],
                sorted(map(repr, extra))[:4], ("; raised %s: %s" % (type(exc).__name__, exc)) if exc else ""),
                dict(sig, missing=len(missing), extra=len(extra)))
        if exc is not None:
            if last_nodata or (no_recv_data and op in ("get",)):
                raise Violation("R-nodata-raise", "no-data receive raised %s: %s" % (type(exc).__name__, exc), sig)
            if op == "spin" and no_recv_data and not ctx.srcs:
                raise Violation("R-nodata-raise", "spin without data raised %s: %s" % (type(exc).__name__, exc), sig)
            self.probes["exc_after_complete_delivery"] += 1

        # -- spin: every source of every endpoint once per iteration, value sent once to its endpoint
        if op == "spin":
            k = int(st["k"])
            pred_calls = Counter()
            pred_src = Counter()
            for n in md.known:
                for hid in md.sources.get(n, ()):
                    pred_calls[hid] += k
                    if opened[(hi, n)]:
                        pred_src[("mem" if hub.kinds[n]["kind"] == "mem" else "wire", hi, n, hid)] += k
            obs_calls = Counter(h for h, _ in ctx.srcs)
            obs_by = Counter()
            for d in set(ctx.src_deliv):
                val = d[3][0] if d[0] == "wire" else d[3]
                if d[0] == "wire" and d[3][1] != (HUB_IP, hub.kinds[d[2]]["tx"]):
                    raise Violation("R-spin-source", "source value %r for endpoint %s was sent to %r instead of %r" % (
                        val, d[2], d[3][1], (HUB_IP, hub.kinds[d[2]]["tx"])), sig)
                for hid_, cnt_ in src_attr.get(d, ()):
                    obs_by[(d[0], d[1], d[2], hid_)] += cnt_
            if exc is None or not last_nodata:
                # each source at least once per iteration and at most once per registration per iteration (one value
                # may be shared by the endpoints a handle is registered on); every registration gets exactly one value
                # per iteration
                regs = Counter(hid for n in md.known for hid in md.sources.get(n, ()))
                bad = [h for h in set(list(obs_calls) + list(regs))
                       if not (k * (1 if regs[h] else 0) <= obs_calls[h] <= k * regs[h])]
                if bad:
                    raise Violation("R-spin-source", "spin(%d): sources called %r, expected %r%s" % (
                        k, dict(obs_calls), dict(pred_calls),
                        ("; raised %s: %s" % (type(exc).__name__, exc)) if exc else ""), sig)
                if obs_by != pred_src:
                    raise Violation("R-spin-source", "spin(%d): source values sent %r, expected %r%s" % (
                        k, sorted(map(repr, obs_by.items())), sorted(map(repr, pred_src.items())),
                        ("; raised %s: %s" % (type(exc).__name__, exc)) if exc else ""), sig)
            # a message that has arrived on an open endpoint with an active rule or sink is *received* by the next
            # spin: every such endpoint must see at least one receive attempt during spin(k>=1)
            if exc is None and k >= 1 and self._ready:
                polled = set(r[1] for r in ctx.recvs if r[0] == hi)
                starved = [n for n in self._ready if n not in polled]
                if starved:
                    raise Violation("R-spin-poll", "spin(%d) never polled endpoint %s although it is open, has %s and a "
                                    "message waiting: the message is not delivered to its registered destinations" % (
                                        k, starved[0], "a sink" if md.sinks.get(starved[0]) else "a forwarding rule"), sig)
                self.probes["spin_polled_ready_endpoint"] += 1
            if pred_calls:
                self.n_nontrivial += 1
                self.probes["spin_with_sources"] += 1
                if any(md.fwd.get(n) or md.sinks.get(n) for n in md.known if md.sources.get(n)):
                    self.probes["spin_sources_and_rules_same_endpoint"] += 1
        elif ctx.srcs:
            raise Violation("R-spin-source", "%s called sources %r" % (op, ctx.srcs[:3]), sig)

        self._probe_traffic(st, hi, ctx, opened, data_recvs, nodata_recvs)

    # ---- reach probes ------------------------------------------------------------
    def _probe_reg(self, st, pred_ret):
        op = st["op"]
        P = self.probes
        known = self.hubs[st.get("h", 0) if st.get("h", 0) < len(self.hubs) else 0].model.known
        if op == "fwd":
            if not pred_ret and st["i"] in known and st["o"] in known:
                P["duplicate_forward_rejected"] += 1
            if pred_ret and (st["i"], st["o"]) in self._deleted:
                P["delete_then_readd"] += 1
            if pred_ret and st["i"] == st["o"]:
                P["self_forward"] += 1
            if pred_ret:
                md = self.hubs[st.get("h", 0) if st.get("h", 0) < len(self.hubs) else 0].model
                if st["i"] in md.fwd.get(st["o"], ()) and st["i"] != st["o"]:
                    P["two_endpoint_cycle"] += 1
        elif op == "unfwd":
            if pred_ret:
                self._deleted.add((st["i"], st["o"]))
                P["delete_forward"] += 1
            else:
                P["delete_absent_rule"] += 1
        elif op in ("sink", "source"):
            if st["hid"] is None:
                P["none_handle_rejected"] += 1
            elif not pred_ret and st["n"] in known:
                P["duplicate_%s_rejected" % op] += 1
        names_ = [st.get(k_) for k_ in ("i", "o", "n") if st.get(k_) is not None]
        if any(n_ not in known for n_ in names_):
            P["unknown_name_registration"] += 1
            if any(n_ not in known and n_.strip().lower() in [k_.lower() for k_ in known] for n_ in names_):
                P["near_miss_name_registration"] += 1

    _deleted = None

    def _probe_traffic(self, st, hi, ctx, opened, data_recvs, nodata_recvs):
        P = self.probes
        hub = self.hubs[hi]
        md = hub.model
        for (h, n, pos, v) in nodata_recvs:
            m2 = self.hubs[h].model
            if m2.fwd.get(n):
                P["nodata_with_forward_rule"] += 1
            if m2.sinks.get(n) and not m2.fwd.get(n):
                P["nodata_with_sink_only"] += 1
            if self.hubs[h].kinds[n]["kind"] == "udp":
                P["udp_timeout_path"] += 1
        if st["op"] == "get":
            n = st["n"]
            if n not in md.known:
                P["get_unknown_port"] += 1
            elif not opened[(hi, n)]:
                P["get_closed_port"] += 1
                if md.fwd.get(n) or md.sinks.get(n):
                    P["get_closed_port_with_rules"] += 1
        for (h, n, pos, v) in data_recvs:
            m2 = self.hubs[h].model
            for d in m2.fwd.get(n, ()):
                if not opened[(h, d)] and self.hubs[h].kinds[d]["kind"] == "udp":
                    P["forward_to_closed_udp"] += 1
                if d == n:
                    P["self_forward_delivery"] += 1
            if len(m2.fwd.get(n, ())) >= 2:
                P["fanout_ge2_destinations"] += 1
            if len(m2.sinks.get(n, ())) >= 2:
                P["fanout_ge2_sinks"] += 1
            if v in self._seen_vals:
                P["duplicate_datagram_two_fanouts"] += 1
            self._seen_vals.add(v)
            if h != 0:
                P["chained_hub_receive"] += 1
                if m2.sinks.get(n):
                    P["chained_hub_to_sink"] += 1
            if v in self._held_vals:
                P["held_then_received_by_later_poll"] += 1
        if len(data_recvs) >= 2:
            P["multiple_receives_in_one_call"] += 1

    # ---- whole run -----------------------------------------------------------------
    def run(self):
        if self.trace.get("marathon"):
            self.probes["marathon_history"] += 1
        self._deleted = set()
        self._seen_vals = set()
        self._held_vals = set()
        for st in self.trace["steps"]:
            self.step(st)
        for k in ("dropped", "duplicated", "lost_unbound", "overflow", "held", "reordered",
                  "truncated", "timeouts", "forced_timeouts"):
            if self.net.stats[k]:
                self.faults["net_" + k] += self.net.stats[k]
        return self


def _coarse(state):
    return tuple(sorted((p[2], p[3], p[4], len(p[5]), len(p[6]), len(p[7])) for p in state))


_MEM = []


def _mem_class():
    if not _MEM:
        _MEM.append(_make_mem_class())
    return _MEM[0]


def execute(trace, keep_log=False, collect=True):
    """Run one trace.  Returns (run, violation or None)."""
    run = RouterRun(trace, keep_log=keep_log)
    run.collect = collect
    try:
        run.run()
    except Violation as v:
        return run, v
    return run, None


# --------------------------------------------------------------------------- generator

OPS = ["fwd", "unfwd", "sink", "source", "get", "send", "spin", "open", "close", "openall",
       "closeall", "peer_send", "inject", "idle", "peer_drain"]
BASE_W = {"fwd": 3.0, "unfwd": 1.6, "sink": 1.6, "source": 1.0, "get": 4.0, "send": 0.8, "spin": 2.0,
          "open": 0.7, "close": 0.5, "openall": 0.3, "closeall": 0.2, "peer_send": 3.0, "inject": 3.0,
          "idle": 0.6, "peer_drain": 0.1}


def gen_trace(seed):
    rc = stream(seed, "cfg")
    ro = stream(seed, "ops")
    rn = stream(seed, "net")
    n_hubs = 2 if rc.random() < 0.15 else 1
    p_udp = rc.choice([0.0, 0.0, 0.5, 0.5, 1.0])
    if n_hubs == 2:
        p_udp = max(p_udp, 0.5)
    taus = []
    hubs = []
    peer_ports = []
    n_peers = rc.randint(0, 3)
    peers = [{"n": "P%d" % j, "port": 6000 + j} for j in range(n_peers)]
    small_buf = rc.random() < 0.05
    for h in range(n_hubs):
        n_eps = pick_weighted(rc, [(1, 2.0), (2, 4.0), (3, 2.0), (4, 1.5)])
        eps = []
        for i in range(n_eps):
            name = NAMES[i]
            if rc.random() < p_udp:
                tau = round(log_uniform(rc, 0.001, 5.0), 4)
                taus.append(tau)
                e = {"n": name, "kind": "udp", "rx": 5000 + 10 * h + i, "tx": None, "tau": tau}
                if small_buf:
                    e["buf"] = rc.choice([1, 2, 3, 1024])
                eps.append(e)
            else:
                e = {"n": name, "kind": "mem"}
                if rc.random() < 0.15:
                    e["link"] = NAMES[rc.randrange(n_eps)]
                eps.append(e)
        hubs.append({"eps": eps})
    label_mode = rc.choice(["same", "same", "same", "default", "crossed"])
    if label_mode != "same":
        for hc in hubs:
            names_ = [e["n"] for e in hc["eps"]]
            for i_, e in enumerate(hc["eps"]):
                e["label"] = "CommObj" if label_mode == "default" else names_[(i_ + 1) % len(names_)]
    # wire the UDP transmit ports: a peer, another endpoint (cycle / chain), or nobody
    all_rx = [(h, e["rx"]) for h, hc in enumerate(hubs) for e in hc["eps"] if e["kind"] == "udp"]
    for h, hc in enumerate(hubs):
        for e in hc["eps"]:
            if e["kind"] != "udp":
                continue
            choices = [(7000, 1.0)]
            for p in peers:
                choices.append((p["port"], 2.0))
            for (h2, rx) in all_rx:
                choices.append((rx, 3.0 if h2 != h else 1.5))
            e["tx"] = pick_weighted(rc, choices)
    cfg = {"hubs": hubs, "peers": peers,
           "inbox_cap": rc.choice([1, 2, 64, 64, 64]),
           "sink_shapes": [rc.choice(["func", "method", "partial", "weakowner", "builtin"]) for _ in range(3)],
           "source_shapes": [rc.choice(["func", "method", "partial", "weakowner", "builtin"]) for _ in range(3)],
           "sink_returns": rc.choice([["none"] * 3, ["none"] * 3, ["false", "true", "none"], ["echo", "zero", "text"],
                                      ["true", "false", "echo"]]),
           # what the sources report: fresh tokens, the same reading every time, or the same reading as each other
           "source_values": rc.choice([["unique"] * 3, ["unique"] * 3, ["unique", "const", "shared"], ["shared"] * 3,
                                       ["const", "const", "unique"], ["shared", "shared", "unique"]])}
    if rc.random() < 0.25:
        # one sink that uses the hub while it is being called (polls or sends on some endpoint of hub 0)
        re = [None, None, None]
        re[rc.randrange(3)] = {"op": rc.choice(["get", "get", "send"]), "n": rc.choice(hubs[0]["eps"])["n"]}
        cfg["sink_reenter"] = re
    tau_max = max(taus) if taus else 0.1

    # swarm: op mix
    w = []
    for op in OPS:
        x = BASE_W[op]
        if rc.random() < 0.15:
            x = 0.0
        else:
            x *= rc.uniform(0.3, 2.0)
        w.append([op, x])
    wd = dict((a, b) for a, b in w)
    if wd["get"] == 0 and wd["spin"] == 0:
        wd["get"] = BASE_W["get"]
    table = [(op, wd[op]) for op in OPS]
    fault_mode = pick_weighted(rc, [("none", 4.0), ("net", 2.0), ("nodata", 2.0), ("both", 2.0)])
    p_unknown = rc.choice([0.0, 0.05, 0.1])
    length = min(60, 1 + int(ro.expovariate(1.0 / 9.0)))
    marathon = rc.random() < MARATHON_RATE
    if marathon:
        # a hub that lives long: hundreds of spins, mostly idle, some traffic -- counters, leaks and back-off logic that
        # need hundreds of empty polls only show here (cheap in simulation: an idle poll costs microseconds)
        length = rc.randint(300, 900)
        wd.update({"spin": 14.0, "get": 3.0, "peer_send": 1.5, "inject": 1.5, "fwd": 0.5, "unfwd": 0.3, "sink": 0.4, "source": 0.2,
                   "close": 0.05, "closeall": 0.02, "open": 0.2, "openall": 0.2, "idle": 0.3, "send": 0.3, "peer_drain": 0.05})
        table = [(op, wd[op]) for op in OPS]
        fault_mode = "none"
        p_unknown = 0.0
    steps = []
    tok = [0]

    p_repeat = rc.choice([0.0, 0.0, 0.08, 0.2])
    p_odd = rc.choice([0.0, 0.0, 0.1, 0.3])
    all_mem = all(e["kind"] == "mem" for hc in hubs for e in hc["eps"])

    def newtok():
        # mostly unique payloads; sometimes the *same* payload again (two distinct messages with equal content
        # must both be delivered -- a de-duplicating "optimisation" would be wrong)
        if tok[0] and ro.random() < p_repeat:
            return "m%d" % ro.randint(max(1, tok[0] - 2), tok[0])
        tok[0] += 1
        t = "m%d" % tok[0]
        if all_mem and ro.random() < p_odd:
            # in-memory endpoints carry whatever they are given: numbers (0 and 0.0 are falsy), not only text
            return ro.choice([0, tok[0] + 1000, 0.0, False])
        if ro.random() < p_odd:
            # payloads a careless strip()/split()/re-encode would damage
            t = ro.choice([" " + t, t + " ", t + "\n", "\t" + t, t + "\u00e9" if not small_buf else t + "_", t + "x" * 300, t + " " + t,
                           "", "0", t + "\x00", "\x00", t + "\x00" + t, t + "\r", "\x7f" + t])       # the empty message and "0" are messages too (a truthiness test would drop them)
        return t

    def unknown_name(h):
        # names the hub does not know: a fresh one, or a near miss of a real one (case, surrounding whitespace)
        if ro.random() < 0.5:
            return UNKNOWN
        n_ = ro.choice(hubs[h]["eps"])["n"]
        return ro.choice([n_.lower(), n_ + " ", " " + n_, n_ + "\n", n_.lower() + " "])

    def pick_name(h):
        if ro.random() < p_unknown:
            return unknown_name(h)
        return ro.choice(hubs[h]["eps"])["n"]

    # the generator's rough idea of which endpoints have something queued, so that most polls meet data
    pending = [dict((e["n"], 0) for e in hc["eps"]) for hc in hubs]
    rx_owner = dict((e["rx"], (h, e["n"])) for h, hc in enumerate(hubs) for e in hc["eps"] if e["kind"] == "udp")

    def pick_poll(h):
        if ro.random() < p_unknown:
            return unknown_name(h)
        ready = [n for n, c in pending[h].items() if c > 0]
        if ready and ro.random() < 0.75:
            n = ro.choice(ready)
            pending[h][n] -= 1
            return n
        return ro.choice(hubs[h]["eps"])["n"]

    def fates(k):
        if fault_mode not in ("net", "both"):
            return None
        out = []
        for _ in range(k):
            kind = pick_weighted(rn, [("deliver", 6.0), ("drop", 1.0), ("dup", 1.0), ("late", 1.5)])
            if kind == "deliver":
                out.append({"k": "deliver", "lat": round(rn.choice([0.0, rn.uniform(0, tau_max)]), 5)})
            elif kind == "late":
                out.append({"k": "deliver", "lat": round(rn.uniform(tau_max, 2 * tau_max), 5)})
            elif kind == "dup":
                out.append({"k": "dup", "lats": [round(rn.uniform(0, tau_max), 5),
                                                 round(rn.uniform(0, 2 * tau_max), 5)]})
            else:
                out.append({"k": "drop"})
        return out

    if ro.random() < 0.9 or marathon:
        for h in range(n_hubs):
            steps.append({"op": "openall", "h": h})
    if marathon:
        for h in range(n_hubs):
            for e in hubs[h]["eps"]:        # every endpoint is polled by spin: give each a sink or a rule
                if ro.random() < 0.5:
                    steps.append({"op": "sink", "h": h, "n": e["n"], "hid": ro.randrange(3)})
                else:
                    steps.append({"op": "fwd", "h": h, "i": e["n"], "o": ro.choice(hubs[h]["eps"])["n"]})
    while len(steps) < length:
        op = pick_weighted(ro, table)
        h = ro.randrange(n_hubs)
        st = {"op": op, "h": h}
        if op in ("fwd", "unfwd"):
            st["i"] = pick_name(h)
            st["o"] = pick_name(h)
        elif op in ("sink", "source"):
            st["n"] = pick_name(h)
            st["hid"] = None if ro.random() < 0.05 else ro.randrange(3)
        elif op == "get":
            st["n"] = pick_poll(h)
            f = fates(2)
            if f:
                st["fates"] = f
        elif op == "send":
            st["n"] = pick_name(h)
            st["tok"] = newtok()
            f = fates(1)
            if f:
                st["fates"] = f
        elif op == "spin":
            for n_ in pending[h]:
                pending[h][n_] = max(0, pending[h][n_] - 1)
            st["k"] = pick_weighted(ro, [(0, 0.3), (1, 4.0), (2, 2.0), (3, 1.0), (5, 0.3), (ro.randint(6, 12), 0.2)])
            if marathon:
                st["k"] = ro.choice([4, 8, 12, 12])
            f = fates(4)
            if f:
                st["fates"] = f
        elif op in ("open", "close"):
            st["n"] = pick_name(h)
        elif op == "peer_send":
            rxs = [e["rx"] for e in hubs[h]["eps"] if e["kind"] == "udp"]
            if not rxs:
                continue
            st["port"] = ro.choice(rxs)
            pending[h][rx_owner[st["port"]][1]] += 1
            if peers:
                st["p"] = ro.choice(peers)["n"]
            st["tok"] = newtok()
            f = fates(1)
            if f:
                st["fates"] = f
            burst = 1 if ro.random() < 0.8 else ro.randint(2, 4)
            for _ in range(burst - 1):
                s2 = dict(st)
                s2["tok"] = newtok()
                f = fates(1)
                if f:
                    s2["fates"] = f
                steps.append(s2)
        elif op == "inject":
            mems = [e["n"] for e in hubs[h]["eps"] if e["kind"] == "mem"]
            if not mems:
                continue
            st["n"] = ro.choice(mems)
            pending[h][st["n"]] += 1
            st["tok"] = newtok()
            if ro.random() < 0.2:
                s2 = dict(st)
                s2["tok"] = newtok()
                steps.append(s2)
        elif op == "idle":
            st["dt"] = round(ro.uniform(0, 2 * tau_max), 5)
        elif op == "peer_drain":
            if not peers:
                continue
            st["p"] = ro.choice(peers)["n"]
        steps.append(st)
    trace = {"property": PROP, "config": cfg, "steps": steps, "nodata": []}
    if fault_mode in ("nodata", "both"):
        # positions are global receive indices; an upper bound on their number is enough
        upper = sum((s.get("k", 1) * 4) if s["op"] == "spin" else 1 for s in steps if s["op"] in ("get", "spin"))
        if upper:
            kf = 1 + int(rn.expovariate(1.0))
            trace["nodata"] = sorted(set(rn.randrange(upper) for _ in range(kf)))
    trace["fault_mode"] = fault_mode
    if marathon:
        trace["marathon"] = True
    return trace


# --------------------------------------------------------------------------- minimisation

def _still(trace, clause):
    try:
        _, v = execute(trace, collect=False)
    except HarnessError:
        return False
    return v is not None and v.clause == clause


def minimise(trace, clause, budget):
    from dsim.shrink import ddmin
    import copy
    tr = copy.deepcopy(trace)
    tr.pop("fault_mode", None)

    def with_steps(steps):
        t = dict(tr)
        t["steps"] = steps
        return t

    def test_steps(steps):
        return _still(with_steps(steps), clause)

    tr["steps"] = ddmin(tr["steps"], test_steps, budget)
    # fewer forced no-data positions
    for pos in list(tr.get("nodata", [])):
        if not budget.spend():
            break
        cand = dict(tr)
        cand["nodata"] = [p for p in tr["nodata"] if p != pos]
        if _still(cand, clause):
            tr = cand
    # drop fate annotations, spin(k) -> spin(1)
    for i in range(len(tr["steps"])):
        st = tr["steps"][i]
        for simpl in (lambda s: {k: v for k, v in s.items() if k != "fates"} if "fates" in s else None,
                      lambda s: dict(s, k=1) if s.get("op") == "spin" and s.get("k", 1) > 1 else None,
                      lambda s: {k: v for k, v in s.items() if k != "p"} if s.get("op") == "peer_send" and "p" in s else None):
            new = simpl(tr["steps"][i])
            if new is None or not budget.spend():
                continue
            cand = copy.deepcopy(tr)
            cand["steps"][i] = new
            if _still(cand, clause):
                tr = cand
    # configuration: drop the second hub, unused endpoints, peers, links; udp -> mem; plain knobs
    def try_cfg(mut):
        nonlocal tr
        if not budget.spend():
            return
        cand = copy.deepcopy(tr)
        try:
            if mut(cand) is False:
                return
        except (KeyError, IndexError):
            return
        if _still(cand, clause):
            tr = cand

    if len(tr["config"]["hubs"]) > 1:
        def drop_hub(c):
            if any(s.get("h", 0) == 0 for s in c["steps"]) and any(s.get("h", 0) == 1 for s in c["steps"]):
                return False
            keep = 1 if all(s.get("h", 0) == 1 for s in c["steps"]) else 0
            c["config"]["hubs"] = [c["config"]["hubs"][keep]]
            for s in c["steps"]:
                s["h"] = 0
        try_cfg(drop_hub)
    for hi in range(len(tr["config"]["hubs"])):
        for name in list(reversed(NAMES)):
            def drop_ep(c, hi=hi, name=name):
                eps = c["config"]["hubs"][hi]["eps"]
                if len(eps) <= 1 or not any(e["n"] == name for e in eps):
                    return False
                c["config"]["hubs"][hi]["eps"] = [e for e in eps if e["n"] != name]
            try_cfg(drop_ep)
        for ei in range(len(tr["config"]["hubs"][hi]["eps"])):
            def to_mem(c, hi=hi, ei=ei):
                e = c["config"]["hubs"][hi]["eps"][ei]
                if e["kind"] != "udp":
                    return False
                rx = e["rx"]
                c["config"]["hubs"][hi]["eps"][ei] = {"n": e["n"], "kind": "mem"}
                for s in c["steps"]:
                    if s["op"] == "peer_send" and s.get("port") == rx:
                        s.clear()
                        s.update({"op": "inject", "h": hi, "n": e["n"], "tok": "m0"})
            try_cfg(to_mem)

            def unlink(c, hi=hi, ei=ei):
                e = c["config"]["hubs"][hi]["eps"][ei]
                if "link" not in e:
                    return False
                del e["link"]
            try_cfg(unlink)

            def plain_tau(c, hi=hi, ei=ei):
                e = c["config"]["hubs"][hi]["eps"][ei]
                if e["kind"] != "udp" or (e["tau"] == 0.1 and "buf" not in e):
                    return False
                e["tau"] = 0.1
                e.pop("buf", None)
            try_cfg(plain_tau)

    def drop_peers(c):
        if not c["config"].get("peers"):
            return False
        c["config"]["peers"] = []
    try_cfg(drop_peers)

    def plain_cfg(c):
        c["config"]["inbox_cap"] = 64
        c["config"]["sink_shapes"] = ["func"] * 3
        c["config"]["source_shapes"] = ["func"] * 3
    try_cfg(plain_cfg)
    tr["steps"] = ddmin(tr["steps"], lambda s: _still(dict(tr, steps=s), clause), budget)
    return tr


def signature(trace, violation):
    """Flat description of a (minimised) violation, used to match known findings."""
    ops = [s["op"] for s in trace["steps"]]
    sig = {
        "clause": violation.clause,
        "last_op": ops[-1] if ops else None,
        "ops": ",".join(sorted(set(ops))),
        "n_steps": len(ops),
        "exception": violation.detail.get("exception"),
        "forced_nodata": bool(trace.get("nodata")),
        "kinds": ",".join(sorted(set(e["kind"] for h in trace["config"]["hubs"] for e in h["eps"]))),
    }
    return sig


# --------------------------------------------------------------------------- driver interface

LEVEL = "fault_enumeration"
HAS_CLOCK = True
TIERS = {
    "quick": {"runs": 80000, "wall": 75, "chunk": 400, "det_sample": 96, "min_wall": 40.0},
    "thorough": {"runs": 3000000, "wall": 780, "chunk": 1000, "det_sample": 192, "min_wall": 120.0},
}
SWEEP_CAP = 24
PAIR_SWEEP_MAX_R = 8
MARATHON_RATE = 0.004
RULE = ("Seeded generation of router histories (1-2 hubs, 1-4 endpoints each, in-memory doubles and real UDPObjects "
        "on a simulated socket module, 0-3 sinks/sources, 0-3 peers, <=60 steps, per-run op mix and fault mode); "
        "each fault-free-at-k history is re-executed with the no-data fault forced at every receive position k "
        "(up to %d positions per history; thorough tier: also at every pair of positions of histories with <= 8 receives). An execution is non-trivial iff at least one data-bearing receive had a "
        "registered destination/sink to deliver to, or a spin called a registered source; distinct = distinct event-log "
        "digest. states/transitions = distinct abstract (rule tables, open flags, inbox occupancy class) states and "
        "(coarse state, op, outcome) transitions." % SWEEP_CAP)
REAL = ["basic_robotics.interfaces.comms_core.Comms", "basic_robotics.interfaces.comms_object.CommsObject",
        "basic_robotics.interfaces.udp_bridge.UDPObject"]
STUB = ["socket module seen by udp_bridge (dsim.net.SimSocketModule: virtual clock, scripted datagram fates)",
        "MemEndpoint doubles of the CommsObject interface", "remote peers (raw SimSockets)",
        "sink/source callables (recording; sources return unique tokens)"]
ASSUMPTIONS = [
    "SimSocket reproduces the Linux UDP behaviour measured with real loopback sockets (DESIGN.md 2.1); "
    "`./check selftest fidelity` compares it with real sockets",
    "single-threaded hub, call-backs do not re-enter the hub (the library documents itself as single-threaded)",
    "payloads are unique non-empty ASCII tokens; send-side errors and call-back exceptions are not injected "
    "(the statement is silent about them)",
    "sampling, not enumeration: the quantifier's 'exhaustively up to depth 5' clause is not claimed",
]
EXPECTED_PROBES = [
    "nodata_with_forward_rule", "nodata_with_sink_only", "udp_timeout_path", "duplicate_forward_rejected",
    "delete_then_readd", "delete_absent_rule", "forward_to_closed_udp", "get_closed_port_with_rules",
    "get_unknown_port", "self_forward_delivery", "two_endpoint_cycle", "held_then_received_by_later_poll",
    "duplicate_datagram_two_fanouts", "multiple_receives_in_one_call", "chained_hub_to_sink",
    "spin_sources_and_rules_same_endpoint", "spin_polled_ready_endpoint", "fanout_ge2_destinations", "fanout_ge2_sinks",
    "none_handle_rejected", "duplicate_sink_rejected", "duplicate_source_rejected", "open_close_state_checked",
    "sink_reentered_hub", "marathon_history",
]


def warmup():
    from dsim import use_repo
    use_repo()
    _load()
    _mem_class()


def variants(trace, run):
    """The no-data fault forced at every receive position of this history (systematic placement)."""
    R = run.net.recv_pos
    if R == 0 or len(trace["steps"]) > 120:
        return []
    base = list(trace.get("nodata", []))
    if R <= SWEEP_CAP:
        positions = range(R)
    else:
        r = stream(canon_seed(trace), "sweep")
        positions = sorted(r.sample(range(R), SWEEP_CAP))
    out = []
    for k in positions:
        if k in base:
            continue
        t = dict(trace)
        t["nodata"] = sorted(base + [k])
        out.append(t)
    if os.environ.get("VERIF_TIER") == "thorough" and 2 <= R <= PAIR_SWEEP_MAX_R:
        # thorough tier: the no-data fault at every PAIR of receive positions of short histories
        for a in range(R):
            for b in range(a + 1, R):
                if a in base or b in base:
                    continue
                t = dict(trace)
                t["nodata"] = sorted(base + [a, b])
                out.append(t)
    return out


def canon_seed(trace):
    return digest_int(trace["steps"])


def describe(trace):
    cfg = trace["config"]
    eps = ["/".join("%s:%s" % (e["n"], e["kind"]) for e in h["eps"]) for h in cfg["hubs"]]

    def fmt(s):
        a = [s["op"]] + [str(s[k]) for k in ("i", "o", "n", "hid", "k", "tok", "port", "dt") if k in s]
        if "fates" in s:
            a.append("fates=" + ";".join(f["k"] for f in s["fates"]))
        return " ".join(a)
    return {"hubs": eps, "nodata_forced_at": trace.get("nodata", []),
            "fault_mode": trace.get("fault_mode"), "steps": [fmt(s) for s in trace["steps"][:40]]}


RouterRun.sim_seconds = property(lambda self: self.clock.now)
